/* h_late (C10, fixed real-kernel schedule): written by a round-8 review sub-agent as a demonstration, kept as a harness.
 *
 * late.c <mode>      mode = late | warm
 *
 * Thread T1 (main) calls fork(). Thread T2 makes a wrapped exec (vfork()+execv(), as any spawning thread does) and is
 * held at one point INSIDE the library's "libc guard" region of the datetime data source: this program provides a
 * tzset() that parks the calling thread (that is all it does besides calling the real one) - the same as the scheduler
 * not running T2 at that instruction.
 *
 *  late: T2's call is the FIRST call into the library in this process and it starts after T1's fork() has begun
 *        (glibc has already taken its snapshot of the registered atfork handlers and is running the one prepare
 *        handler this program registered, which simply waits until T2 is parked). The library registers its own
 *        handlers during T2's call: too late for this fork - neither its prepare nor its child handler runs.
 *        (T2 is released 1 s later by a timer thread; the fork happens long before that.)
 *  warm: the library has been entered before (handlers registered), T2 is parked the same way and released after 1 s
 *        by a timer thread: T1's fork() waits in the library's prepare handler - the repaired case, control.
 *
 * In the child (of T1): execv("/bin/true"). exit 0 = child completed its exec, 1 = child blocked for 5 s.
 */
#define _GNU_SOURCE
#include <dlfcn.h>
#include <pthread.h>
#include <semaphore.h>
#include <signal.h>
#include <stdio.h>
#include <stdlib.h>
#include <string.h>
#include <time.h>
#include <unistd.h>
#include <sys/wait.h>

static sem_t go, parked, release;
static __thread int park_me = 0;
static int late_mode = 0;

/* Interposed for the library's PLT call only to HOLD the thread there */
void tzset(void)
{
    static void (*real)(void);
    if (!real) real = (void (*)(void)) dlsym(RTLD_NEXT, "tzset");
    if (park_me) { park_me = 0; sem_post(&parked); sem_post(&parked); sem_wait(&release); }   /* one post for the timer, one for T1 */
    real();
}

static void *t2(void *a)
{
    (void)a;
    sem_wait(&go);
    park_me = 1;
    pid_t w = vfork();
    if (w == 0) { char *av[] = { "/bin/true", "T2-spawn", NULL }; execv("/bin/true", av); _exit(98); }
    waitpid(w, NULL, 0);
    return NULL;
}
static void *timer(void *a) { (void)a; sem_wait(&parked); sleep(1); sem_post(&release); return NULL; }

static void app_prepare(void)
{
    if (late_mode) { sem_post(&go); sem_wait(&parked); }    /* "T1 is not scheduled here until T2 is inside the guard" */
}

int main(int argc, char **argv)
{
    late_mode = (argc > 1 && 0 == strcmp(argv[1], "late"));
    sem_init(&go, 0, 0); sem_init(&parked, 0, 0); sem_init(&release, 0, 0);
    pthread_atfork(app_prepare, NULL, NULL);
    pthread_t th, tm; pthread_create(&th, NULL, t2, NULL);

    pthread_create(&tm, NULL, timer, NULL);                   /* T2 is released 1 s after it was parked, whatever happens */
    if (!late_mode) {
        pid_t w = vfork();
        if (w == 0) { char *av[] = { "/bin/true", "warm-up", NULL }; execv("/bin/true", av); _exit(98); }
        waitpid(w, NULL, 0);
        sem_post(&go);
        struct timespec ts = { 0, 300*1000*1000 }; nanosleep(&ts, NULL);   /* let T2 get parked */
    }

    pid_t c = fork();
    if (c == 0) { char *av[] = { "/bin/true", "child-of-T1", NULL }; execv("/bin/true", av); _exit(97); }
    if (c < 0)  { perror("fork"); return 2; }

    int rc = 1;
    for (int i = 0; i < 50; i++) {
        int st; pid_t r = waitpid(c, &st, WNOHANG);
        if (r == c) {
            if (WIFEXITED(st) && WEXITSTATUS(st) == 0) { printf("%s: child completed its exec\n", argv[1]); rc = 0; }
            else { printf("%s: child ended oddly (status 0x%x)\n", argv[1], st); rc = 2; }
            break;
        }
        struct timespec ts = { 0, 100*1000*1000 }; nanosleep(&ts, NULL);
    }
    if (rc == 1) {
        char p[64], b[64] = ""; snprintf(p, sizeof p, "/proc/%d/wchan", (int)c);
        FILE *f = fopen(p, "r"); if (f) { if (!fgets(b, sizeof b, f)) b[0] = 0; fclose(f); }
        printf("%s: child %d still has not reached its exec after 5 s (sleeping in: %s)\n", argv[1], (int)c, b);
        kill(c, SIGKILL); waitpid(c, NULL, 0);
    }
    pthread_join(th, NULL);
    return rc;
}
