/* h_bindself <file> -- cmd args...: run cmd in a private mount namespace in which <file> is a mount point (the file bound over itself, as
 * container runtimes do for a single /etc/ld.so.preload): rename() onto it fails with EBUSY, everything else works as before. */
#define _GNU_SOURCE
#include <sched.h>
#include <stdio.h>
#include <string.h>
#include <unistd.h>
#include <sys/mount.h>
int main(int argc, char **argv) {
    if (argc < 4 || strcmp(argv[2], "--")) return 2;
    if (unshare(CLONE_NEWNS) || mount("none", "/", NULL, MS_REC | MS_PRIVATE, NULL) || mount(argv[1], argv[1], NULL, MS_BIND, NULL)) { perror("h_bindself"); return 3; }
    execv(argv[3], argv + 3); perror("execv"); return 126;
}
