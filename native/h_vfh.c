/* h_vfh (C10, sequential fork history with a second thread parked inside the library): written by a round-7 review sub-agent as the
 * demonstration of a regression of fix 0ce1d5c, kept as a harness.  Exit 0 = the program survived, 2 = set-up problem, 139 = SIGSEGV.
 *
 * A thread T1 is inside an exec call (held there by a log FIFO that is full), the main thread calls fork(),
 * and an atfork PREPARE handler of the application - registered before the library's first call, so it runs
 * AFTER the library's own prepare handler - spawns a helper with vfork()+execv().
 *
 * usage: vfh <fifo> <ini> <ini-for-later-calls>
 */
#define _GNU_SOURCE
#include <errno.h>
#include <fcntl.h>
#include <pthread.h>
#include <signal.h>
#include <stdio.h>
#include <stdlib.h>
#include <string.h>
#include <sys/syscall.h>
#include <sys/wait.h>
#include <unistd.h>

static volatile pid_t t1Tid   = 0;
static volatile int   t1Done  = 0;
static volatile int   t1Errno = 0;
static int            helperSpawned = 0;

static void appPrepare (void)
{
    /* "Spawn a helper before every fork" - vfork()+exec is what every shell does */
    char *helperArgv[] = { "helper", "from-atfork-prepare", NULL };
    pid_t p = vfork();
    if (0 == p) {
        execv("/nonexistent/helper", helperArgv);
        _exit(127);
    }
    if (p > 0) {
        waitpid(p, NULL, 0);
        helperSpawned++;
    }
}

static void *t1Main (void *unused)
{
    char *argv[] = { "t1-program", "some", "arguments", NULL };
    (void) unused;
    t1Tid = (pid_t) syscall(SYS_gettid);
    execv("/nonexistent/t1-program", argv);      /* blocks in the library: log FIFO is full */
    t1Errno = errno;
    t1Done  = 1;
    return NULL;
}

static int t1IsBlockedInWritev (void)
{
    char path[64], buf[128];
    int  fd, n;
    snprintf(path, sizeof(path), "/proc/self/task/%d/syscall", (int) t1Tid);
    fd = open(path, O_RDONLY);
    if (fd < 0) return 0;
    n = (int) read(fd, buf, sizeof(buf)-1);
    close(fd);
    if (n <= 0) return 0;
    buf[n] = '\0';
    return (atol(buf) == SYS_writev);
}

int main (int argc, char **argv)
{
    pthread_t t1;
    int       fifoFd, i;
    char      fill[4096];
    pid_t     child;

    if (argc != 4) return 2;
    pthread_atfork(appPrepare, NULL, NULL);                 /* before the library has registered its handlers */

    /* Reader end open, pipe filled to the brim: the library's open() succeeds, its write blocks */
    fifoFd = open(argv[1], O_RDWR | O_NONBLOCK);
    if (fifoFd < 0) { perror("fifo"); return 2; }
    memset(fill, 'x', sizeof(fill));
    while (write(fifoFd, fill, sizeof(fill)) > 0) { }
    while (write(fifoFd, fill, 1) > 0) { }

    pthread_create(&t1, NULL, t1Main, NULL);
    for (i = 0; i < 2000 && !(t1Tid && t1IsBlockedInWritev()); i++) usleep(5000);
    if (!t1IsBlockedInWritev()) { fprintf(stderr, "setup: T1 is not blocked in its log write\n"); return 2; }

    /* Later calls log to a plain file (T1 has read its configuration already) */
    if (0 != rename(argv[3], argv[2])) { perror("rename"); return 2; }

    child = fork();                                         /* prepare handlers: library's, then appPrepare() */
    if (0 == child) _exit(0);
    waitpid(child, NULL, 0);
    if (1 != helperSpawned) { fprintf(stderr, "setup: helper not spawned\n"); return 2; }

    /* Let T1 go on: drain the FIFO */
    while (read(fifoFd, fill, sizeof(fill)) > 0 || !t1Done) {
        usleep(1000);
        if (t1Done) break;
    }
    pthread_join(t1, NULL);
    if (ENOENT != t1Errno) { fprintf(stderr, "T1: unexpected errno %d\n", t1Errno); return 3; }
    printf("T1 finished its exec call normally (ENOENT)\n");
    return 0;
}
