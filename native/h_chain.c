/* h_chain: exclude_spawns_of against real ancestor chains (C15).
 * usage: h_chain <listfile> <hideproc 0|1> <selfname-hex|-> <name-hex>...    (names from the top of the chain down)
 * Builds a chain of real processes below itself, each renamed with prctl(PR_SET_NAME); the bottom process reads one list
 * per line (hex) from <listfile>, asks the filter (through the registry) and compares with an oracle that walks
 * /proc/<pid>/status (Name:, PPid:) - a different file and parser from the one under test - up to pid 0/1 inclusive.
 * With hideproc=1 the bottom process first hides /proc (private mount namespace, empty tmpfs): every list must PASS. */
#define _GNU_SOURCE
#include <errno.h>
#include <sys/stat.h>
#include <fcntl.h>
#include <sched.h>
#include <stdio.h>
#include <stdlib.h>
#include <string.h>
#include <unistd.h>
#include <sys/mount.h>
#include <sys/prctl.h>
#include <sys/wait.h>
#include "snoopy.h"
#include "init-deinit.h"
#include "filterregistry.h"
extern char verif_cfgpath[4096];
static int hexv(int c) { return c <= '9' ? c - '0' : (c | 32) - 'a' + 10; }
static char *unhex(const char *h) { if (!strcmp(h, "-")) return strdup(""); size_t n = strlen(h) / 2; char *s = malloc(n + 1); for (size_t i = 0; i < n; i++) s[i] = (char)(hexv(h[2 * i]) * 16 + hexv(h[2 * i + 1])); s[n] = 0; return s; }
static char anc[64][64]; static int nanc;
static void oracle_ancestors(void) {
    long p = getppid(); nanc = 0;
    /* the parent's number as listed in the procfs instance mounted at /proc (in a PID namespace that kept the outer /proc, getppid() is a number of another numbering) */
    { FILE *f = fopen("/proc/self/status", "r"); char line[512]; if (f) { while (fgets(line, sizeof line, f)) if (!strncmp(line, "PPid:\t", 6)) p = atol(line + 6); fclose(f); } }
    while (p > 0 && nanc < 64) {
        char path[64], line[512]; snprintf(path, sizeof path, "/proc/%ld/status", p); FILE *f = fopen(path, "r"); if (!f) break;
        long pp = -1; char name[64] = "";
        while (fgets(line, sizeof line, f)) { if (!strncmp(line, "Name:\t", 6)) { strncpy(name, line + 6, 63); name[strcspn(name, "\n")] = 0; } else if (!strncmp(line, "PPid:\t", 6)) pp = atol(line + 6); }
        fclose(f);
        /* the name itself comes from /proc/<pid>/comm (raw bytes + one line feed): `status` escapes line feeds and backslashes */
        { char cp[64]; snprintf(cp, sizeof cp, "/proc/%ld/comm", p); int cf = open(cp, O_RDONLY); if (cf >= 0) { char cb[64]; ssize_t cn = read(cf, cb, sizeof cb - 1); close(cf); if (cn > 0) { if (cb[cn - 1] == '\n') cn--; cb[cn] = 0; strcpy(name, cb); } } }
        strcpy(anc[nanc++], name);
        p = pp;
    }
}
int main(int argc, char **argv) {
    if (argc < 4) return 2;
    const char *listfile = argv[1]; int hide = atoi(argv[2]); char *selfname = unhex(argv[3]);
    strcpy(verif_cfgpath, "/nonexistent/verif/snoopy.ini");
    /* hide == 3: the whole chain lives in a new PID namespace that kept the outer /proc (unshare --pid --fork without --mount-proc): the caller's
       getppid() is a small number that denotes an unrelated process under /proc.  hide == 4: only the caller does (it is pid 1 there, parent 0). */
    if (hide == 3 && unshare(CLONE_NEWPID)) { perror("unshare pid"); return 3; }
    for (int i = 4; i < argc; i++) {
        { char *n = unhex(argv[i]); prctl(PR_SET_NAME, n, 0, 0, 0); }   /* rename BEFORE forking: the child must never see the old name */
        pid_t p = fork();
        if (p > 0) { int st; while (waitpid(p, &st, 0) < 0 && errno == EINTR) {} _exit(WIFEXITED(st) ? WEXITSTATUS(st) : 99); }
    }
    if (hide == 4) { if (unshare(CLONE_NEWPID)) { perror("unshare pid"); return 3; } pid_t p = fork(); if (p > 0) { int st; while (waitpid(p, &st, 0) < 0 && errno == EINTR) {} _exit(WIFEXITED(st) ? WEXITSTATUS(st) : 99); } }
    if (*selfname) prctl(PR_SET_NAME, selfname, 0, 0, 0);
    oracle_ancestors();
    if (hide >= 3) hide = 0;
    if (hide == 1 || hide == 2) { if (unshare(CLONE_NEWNS) || mount("none", "/", NULL, MS_REC | MS_PRIVATE, NULL) || mount("tmpfs", "/proc", "tmpfs", 0, NULL)) { perror("hide /proc"); return 3; } }
    /* hide == 2: a FABRICATED /proc (tmpfs): the ancestry above the real parent is what VERIF_FAKEPROC says - "<namehex>:<pid>,..." from the
       parent upwards (the first pid is replaced by the real getppid()); process ids of up to 7 digits and 15-byte names give stat lines
       longer than any a process of this sandbox can have */
    if (hide == 2) {
        const char *spec = getenv("VERIF_FAKEPROC"); if (!spec) return 3; char *d = strdup(spec), *sv = NULL; long pids[64]; char *names[64]; int n = 0;
        for (char *t = strtok_r(d, ",", &sv); t && n < 63; t = strtok_r(NULL, ",", &sv)) { char *c = strchr(t, ':'); if (!c) return 3; *c = 0; names[n] = unhex(*t ? t : "-"); pids[n] = atol(c + 1); n++; }
        if (n == 0) return 3; pids[0] = getppid(); nanc = 0;
        /* the caller's own entry, reachable as /proc/self and as /proc/<pid> */
        { char dp[64], fp[96], me[32]; snprintf(me, sizeof me, "%d", (int)getpid()); snprintf(dp, sizeof dp, "/proc/%s", me); mkdir(dp, 0555); if (symlink(me, "/proc/self")) { perror("/proc/self"); return 3; }
          snprintf(fp, sizeof fp, "%s/stat", dp); FILE *sf = fopen(fp, "w"); if (!sf) { perror(fp); return 3; }
          fprintf(sf, "%s (%s) R %ld %s %s 34816 %s 4194560 1234 0 0 0 12 3 0 0 20 0 1 0 123456789 12345678 1234 18446744073709551615 1 1 0 0 0 0 0 0 0 0 0 0 17 3 0 0 0 0 0\n", me, selfname, pids[0], me, me, me); fclose(sf); }
        for (int i = 0; i < n; i++) { char dp[64], fp[96]; snprintf(dp, sizeof dp, "/proc/%ld", pids[i]); mkdir(dp, 0555); snprintf(fp, sizeof fp, "%s/stat", dp); FILE *sf = fopen(fp, "w"); if (!sf) { perror(fp); return 3; }
            long pp = i + 1 < n ? pids[i + 1] : 0;
            fprintf(sf, "%ld (%s) S %ld %ld %ld 34816 %ld 4194560 1234 0 0 0 12 3 0 0 20 0 1 0 123456789 12345678 1234 18446744073709551615 1 1 0 0 0 0 0 0 0 0 0 0 17 3 0 0 0 0 0\n", pids[i], names[i], pp, pids[i], pids[i], pids[i]);
            fclose(sf); strncpy(anc[nanc], names[i], 63); anc[nanc][63] = 0; nanc++; }
        free(d);
    }
    snoopy_init();
    FILE *lf = fopen(listfile, "r"); if (!lf) { perror(listfile); return 3; }
    static char line[1 << 16]; long n = 0, bad = 0; int shown = 0;
    printf("ANC"); for (int i = 0; i < nanc; i++) { printf(" ["); for (char *q = anc[i]; *q; q++) putchar(*q == '\n' ? '^' : *q); printf("]"); } printf("\n");
    while (fgets(line, sizeof line, lf)) {
        line[strcspn(line, "\n")] = 0; char *list = unhex(line[0] ? line : "-");
        /* oracle: some ancestor's name equals some non-empty comma-separated item */
        int expect_drop = 0; char *dup = strdup(list); char *sv = NULL;
        for (char *it = strtok_r(dup, ",", &sv); it; it = strtok_r(NULL, ",", &sv)) for (int a = 0; a < nanc; a++) if (*it && !strcmp(it, anc[a])) expect_drop = 1;
        free(dup);
        if (hide == 1) expect_drop = 0;   /* /proc not available at all: every error is "pass" */
        static const int ambient[] = { 0, ENOENT, ERANGE, EINTR }; errno = ambient[n % 4];   /* the caller's ambient errno rotates: it must not matter */
        int r = snoopy_filterregistry_callByName("exclude_spawns_of", list);
        n++;
        if ((r == SNOOPY_FILTER_DROP) != expect_drop) { bad++; if (shown++ < 20) { for (char *q = list; *q; q++) if (*q == '\n' || *q == '\r') *q = '^'; printf("MISMATCH list=[%s] got=%s expected=%s\n", list, r == SNOOPY_FILTER_DROP ? "drop" : "pass", expect_drop ? "drop" : "pass"); } }
        free(list);
    }
    fclose(lf);
    snoopy_cleanup();
    printf("DONE lists=%ld mismatches=%ld\n", n, bad);
    return 0;
}
