/* libc functions that return pointers into (or keep a cursor in) static storage shared by all threads of the process.
 *
 * libc is not instrumented, and under the serialising scheduler no two threads are ever inside libc at once, so a library that
 * switches from localtime_r() to localtime() (getpwuid_r -> getpwuid, strtok_r -> strtok, ...) would race on that storage without
 * either the race detector or the scheduler noticing.  In the scheduler builds these names are therefore redirected
 * (-Dlocaltime=vs_localtime ...) to the versions below: same results, but the static storage belongs to THIS translation unit,
 * which IS compiled with the variant's sanitizer - so ThreadSanitizer sees one thread's write and another thread's read/write -
 * and each call ends in a scheduling point, so that another thread can run between the call and the caller's use of the result
 * (the AddressSanitizer variants then see the foreign content in the record).
 * This file includes the real headers and must be compiled WITHOUT the -D renames. */
#include <time.h>
#include <pwd.h>
#include <grp.h>
#include <string.h>
#include <unistd.h>
#include <stdio.h>
/* In the scheduler builds vs_point_user() is a scheduling point (native/vsched.c); elsewhere it only counts: the counter is part of the
 * process digest of the exec harness, so ANY use of such a function by the library shows up as residue in the caller's libc state
 * (the caller may be in the middle of its own strtok() loop, or may be about to exec with strings it got from getpwuid() / ttyname()). */
__attribute__((weak)) void vs_point_user(long code);
int verif_nonreentrant_calls;
static void nr_point(long code) { __atomic_add_fetch(&verif_nonreentrant_calls, 1, __ATOMIC_RELAXED); if (vs_point_user) vs_point_user(code); }
#define vs_point_user nr_point
struct tm *vs_localtime(const time_t *t) { static struct tm b; struct tm *r = localtime_r(t, &b); vs_point_user(20); return r; }
struct tm *vs_gmtime(const time_t *t) { static struct tm b; struct tm *r = gmtime_r(t, &b); vs_point_user(21); return r; }
char *vs_ctime(const time_t *t) { static char b[64]; char *r = ctime_r(t, b); vs_point_user(22); return r; }
char *vs_asctime(const struct tm *t) { static char b[64]; char *r = asctime_r(t, b); vs_point_user(23); return r; }
struct passwd *vs_getpwuid(uid_t u) { static struct passwd p; static char buf[8192]; struct passwd *r = NULL; if (getpwuid_r(u, &p, buf, sizeof buf, &r)) r = NULL; vs_point_user(24); return r; }
struct passwd *vs_getpwnam(const char *n) { static struct passwd p; static char buf[8192]; struct passwd *r = NULL; if (getpwnam_r(n, &p, buf, sizeof buf, &r)) r = NULL; vs_point_user(25); return r; }
struct group *vs_getgrgid(gid_t g) { static struct group p; static char buf[8192]; struct group *r = NULL; if (getgrgid_r(g, &p, buf, sizeof buf, &r)) r = NULL; vs_point_user(26); return r; }
struct group *vs_getgrnam(const char *n) { static struct group p; static char buf[8192]; struct group *r = NULL; if (getgrnam_r(n, &p, buf, sizeof buf, &r)) r = NULL; vs_point_user(27); return r; }
char *vs_ttyname(int fd) { static char b[512]; char *r = ttyname_r(fd, b, sizeof b) ? NULL : b; vs_point_user(28); return r; }
char *vs_getlogin(void) { static char b[256]; char *r = getlogin_r(b, sizeof b) ? NULL : b; vs_point_user(29); return r; }
char *vs_strtok(char *s, const char *d) { static char *save; char *r = strtok_r(s, d, &save); vs_point_user(30); return r; }
char *vs_strerror(int e) { static char b[256]; char tmp[256]; tmp[0] = 0;
#if defined(_GNU_SOURCE)
    const char *m = strerror_r(e, tmp, sizeof tmp);
#else
    const char *m = strerror_r(e, tmp, sizeof tmp) ? "Unknown error" : tmp;
#endif
    snprintf(b, sizeof b, "%s", m); vs_point_user(31); return b; }

/* libc's utmp reader: one file, one position and one name per process, shared by all threads and with the calling program (which may be in the
 * middle of its own getutent() loop, or have another file selected with utmpname()).  The stand-ins forward to libc; the point is the counter
 * (any use is residue in the caller's libc state) and the scheduling point between set / search / end. */
#include <utmp.h>
void vs_setutent(void) { setutent(); vs_point_user(32); }
void vs_endutent(void) { endutent(); vs_point_user(33); }
struct utmp *vs_getutent(void) { struct utmp *r = getutent(); vs_point_user(34); return r; }
struct utmp *vs_getutline(const struct utmp *u) { struct utmp *r = getutline(u); vs_point_user(35); return r; }
struct utmp *vs_getutid(const struct utmp *u) { struct utmp *r = getutid(u); vs_point_user(36); return r; }
int vs_getutent_r(struct utmp *b, struct utmp **r) { int x = getutent_r(b, r); vs_point_user(37); return x; }
int vs_getutline_r(const struct utmp *u, struct utmp *b, struct utmp **r) { int x = getutline_r(u, b, r); vs_point_user(38); return x; }
int vs_getutid_r(const struct utmp *u, struct utmp *b, struct utmp **r) { int x = getutid_r(u, b, r); vs_point_user(39); return x; }

/* tzset(): glibc runs it under its internal time-zone lock and, when TZ is unset, stats and re-reads /etc/localtime and calls the allocator
 * while holding that lock; fork() does not reset the lock in the child.  A thread inside tzset() therefore holds a libc lock across system
 * calls exactly like a thread inside the library's own lock window - but no atfork handler of the library covers it.  In the scheduler
 * builds the lock is modelled by a mutex of this file with a scheduling point inside the window (localtime_r takes the same lock in libc,
 * but without system calls inside: no scheduling point, no explorable window). */
#include <pthread.h>
__attribute__((weak)) int vs_mutex_lock(pthread_mutex_t *m);
__attribute__((weak)) int vs_mutex_unlock(pthread_mutex_t *m);
static pthread_mutex_t model_of_libc_tz_lock = PTHREAD_MUTEX_INITIALIZER;
#undef vs_point_user
static void tz_window(long code) { if (vs_point_user) vs_point_user(code); }     /* a scheduling point inside the window; no counter: these are the right functions to call */
void vs_tzset(void) {
    if (vs_mutex_lock && vs_mutex_unlock) { vs_mutex_lock(&model_of_libc_tz_lock); tzset(); tz_window(40); vs_mutex_unlock(&model_of_libc_tz_lock); }
    else tzset();
}
/* localtime_r() and strftime() run under the same libc lock (strftime() calls tzset() itself, which with TZ unset stats /etc/localtime - a system
 * call inside the window - on every call; localtime_r() loads the zone data on the first conversion of the process).  Same model: the lock is a
 * mutex of this file, with one scheduling point inside the window.  These are the RIGHT functions to call - no counter, only the window. */
/* flockfile()/funlockfile() on the caller's streams: a real libc lock the cooperative scheduler cannot see (a thread parked at a scheduling point while it
 * holds one would block the next thread for real, and nothing would ever run again).  In the scheduler builds the stream locks are mutexes of the
 * scheduler's model, one per standard stream; the serialising scheduler itself keeps the threads out of each other's way. */
static pthread_mutex_t model_of_stream_lock[3];
/* fork(): glibc re-creates the stream locks in the child before any child handler runs - so does the model */
__attribute__((weak)) int vs_mutex_init(pthread_mutex_t *m, const pthread_mutexattr_t *a);
static void stream_locks_in_child(void) { if (vs_mutex_init) for (int i = 0; i < 3; i++) vs_mutex_init(&model_of_stream_lock[i], NULL); }
__attribute__((constructor)) static void stream_locks_setup(void) { pthread_atfork(NULL, NULL, stream_locks_in_child); }
void vs_flockfile(FILE *f) { if (vs_mutex_lock && vs_mutex_unlock) vs_mutex_lock(&model_of_stream_lock[f == stdout ? 1 : f == stderr ? 2 : 0]); else flockfile(f); }
void vs_funlockfile(FILE *f) { if (vs_mutex_lock && vs_mutex_unlock) vs_mutex_unlock(&model_of_stream_lock[f == stdout ? 1 : f == stderr ? 2 : 0]); else funlockfile(f); }

/* getlogin_r(): where /proc/self/loginuid is absent (kernels without audit support) glibc searches utmp with its own reader, under libc's utmp lock and with
 * file locking system calls inside - a lock fork() does not reset either.  The scheduler builds answer as that environment does. */
static pthread_mutex_t model_of_libc_utmp_lock = PTHREAD_MUTEX_INITIALIZER;
int vs_getlogin_r(char *buf, size_t n) {
    if (vs_mutex_lock && vs_mutex_unlock) { vs_mutex_lock(&model_of_libc_utmp_lock); int r = getlogin_r(buf, n); tz_window(43); vs_mutex_unlock(&model_of_libc_utmp_lock); return r; }
    return getlogin_r(buf, n);
}
struct tm *vs_localtime_r(const time_t *t, struct tm *r) {
    if (vs_mutex_lock && vs_mutex_unlock) { vs_mutex_lock(&model_of_libc_tz_lock); struct tm *x = localtime_r(t, r); tz_window(41); vs_mutex_unlock(&model_of_libc_tz_lock); return x; }
    return localtime_r(t, r);
}
size_t vs_strftime(char *s, size_t max, const char *fmt, const struct tm *tm) {
    if (vs_mutex_lock && vs_mutex_unlock) { vs_mutex_lock(&model_of_libc_tz_lock); size_t n = strftime(s, max, fmt, tm); tz_window(42); vs_mutex_unlock(&model_of_libc_tz_lock); return n; }
    return strftime(s, max, fmt, tm);
}

