/* ilp32.c - stand-ins that answer as libc does where long has 32 bits (i386, armhf, x32 ...).
 * The library objects of the "ilp32" build axis are compiled with -Datol=vs32_atol -Datoi=vs32_atoi -Dstrtol=vs32_strtol
 * -Dstrtoul=vs32_strtoul, so every text-to-number conversion through `long` saturates where it would on such a target;
 * long long conversions are the same on both and are not redirected.  (No 32-bit development files exist in this sandbox;
 * the width of `long` is an environment answer the harness decides, like a short read.) */
#include <stdlib.h>
#include <errno.h>
#include <limits.h>
#undef atol
#undef atoi
#undef strtol
#undef strtoul
long vs32_strtol(const char *s, char **end, int base) {
    long long v = strtoll(s, end, base);
    if (v > 2147483647LL) { errno = ERANGE; return 2147483647L; }
    if (v < -2147483648LL) { errno = ERANGE; return -2147483647L - 1; }
    return (long) v;
}
unsigned long vs32_strtoul(const char *s, char **end, int base) {
    /* strtoul negates a "-" prefixed number in unsigned long arithmetic; 32-bit width */
    const char *p = s; while (*p == ' ' || (*p >= '\t' && *p <= '\r')) p++;
    int neg = (*p == '-');
    unsigned long long v = strtoull(neg || *p == '+' ? p + 1 : p, end, base);
    if (v > 4294967295ULL) { errno = ERANGE; return 4294967295UL; }
    return neg ? (unsigned long) (unsigned int) (0u - (unsigned int) v) : (unsigned long) v;
}
long vs32_atol(const char *s) { return vs32_strtol(s, NULL, 10); }
int vs32_atoi(const char *s) { return (int) vs32_strtol(s, NULL, 10); }
