/* vsched - cooperative scheduler for preemption-bounded exploration of snoopy's threads (engine E2).
 *
 * All harness threads are real pthreads but exactly one holds the run token.  Scheduling points:
 * before every pthread_mutex_lock / pthread_mutex_unlock / pthread_once issued by snoopy's code
 * (renamed to vs_* on the compiler command line), thread start, thread end, fork; optionally (VS_FN=1,
 * in builds compiled with -finstrument-functions) the entry of every snoopy function.
 * At a point the scheduler computes the enabled set from its own model of the (recursive) mutexes,
 * takes the next choice from the prefix given in VS_PREFIX (choice 0 afterwards: keep running the
 * current thread if enabled, else lowest id), writes the point to the trace, and hands the token over
 * with a raw futex system call.  This file is compiled WITHOUT sanitizers so ThreadSanitizer sees no
 * happens-before edge from scheduling; the real pthread primitive is called after the point, so the
 * program's own synchronisation stays visible to the detector.
 *
 * exit codes: 76 re-initialisation of a locked mutex, 77 deadlock (no enabled thread, or the real mutex is busy although
 * the model says free), 78 replay divergence (choice out of range), 79 horizon.
 */
#define _GNU_SOURCE
#include <errno.h>
#include <fcntl.h>
#include <linux/futex.h>
#include <pthread.h>
#include <stdio.h>
#include <stdlib.h>
#include <string.h>
#include <sys/syscall.h>
#include <sys/types.h>
#include <unistd.h>
#include "vsched.h"

#define MAXT 8
#define MAXM 8
enum { ST_NONE, ST_READY, ST_DONE, ST_GONE };
static const char *OPN[] = { "start", "lock", "unlock", "once", "fn", "end", "fork", "minit", "user" };

struct thr { volatile int state; int op; void *obj; volatile int futex; int npts; };
unsigned long long (*vs_state_cb)(void) = 0;   /* harness-provided digest of the shared library state (for state-hashed exploration) */
static struct thr T[MAXT];
static int NT;
static struct { void *addr; int owner; int count; } M[MAXM];
static volatile int main_futex, registered;
static int prefix[4096], nprefix, step, horizon = 20000, fnpoints, tracefd = -1, active;
static __thread int vs_tid = -1;
static __thread int vs_nofn;   /* >0 while inside a real blocking primitive (pthread_once, fork): no function-entry points there */
static int cur = -1;
static pid_t pid0;

static long raw_futex(volatile int *addr, int op, int val) { return syscall(SYS_futex, addr, op, val, NULL, NULL, 0); }
static void wait_flag(volatile int *f) { while (__atomic_load_n(f, __ATOMIC_ACQUIRE) == 0) raw_futex(f, FUTEX_WAIT, 0); __atomic_store_n(f, 0, __ATOMIC_RELEASE); }
static void set_flag(volatile int *f) { __atomic_store_n(f, 1, __ATOMIC_RELEASE); raw_futex(f, FUTEX_WAKE, 1); }
static void tr(const char *fmt, ...) __attribute__((format(printf, 1, 2)));
#include <stdarg.h>
static pid_t trace_pid;
static void tr(const char *fmt, ...) { if (tracefd < 0) return;
    /* a forked child (also inside fork()'s atfork handlers, before vs_fork() returns) must never write into the parent's trace */
    pid_t me = (pid_t)syscall(SYS_getpid);
    if (me != trace_pid) { const char *tp = getenv("VS_TRACE"); char nb[4096]; snprintf(nb, sizeof nb, "%s.child%d", tp ? tp : "/dev/null", (int)me % 100000); tracefd = open(nb, O_WRONLY | O_CREAT | O_APPEND | O_CLOEXEC, 0644); trace_pid = me; if (tracefd < 0) return; }
    char b[512]; va_list ap; va_start(ap, fmt); int n = vsnprintf(b, sizeof b, fmt, ap); va_end(ap); if (n > (int)sizeof b) n = sizeof b; if (syscall(SYS_write, tracefd, b, n) < 0) {} }

static int mslot(void *a) { for (int i = 0; i < MAXM; i++) if (M[i].addr == a) return i; for (int i = 0; i < MAXM; i++) if (!M[i].addr) { M[i].addr = a; M[i].owner = -1; M[i].count = 0; return i; } return 0; }
static int op_enabled(int t) {
    if (T[t].state != ST_READY) return 0;
    if (T[t].op == VS_LOCK) { int s = mslot(T[t].obj); return M[s].owner == -1 || M[s].owner == t; }
    return 1;
}
/* decide who runs next; `t` is the thread at the point (or -1).  returns chosen thread */
static int decide(int t) {
    int E[MAXT], n = 0;
    if (t >= 0 && op_enabled(t)) E[n++] = t;
    for (int i = 0; i < NT; i++) if (i != t && op_enabled(i)) E[n++] = i;
    if (n == 0) {
        int left = 0; for (int i = 0; i < NT; i++) if (T[i].state == ST_READY) left++;
        if (!left) return -1;
        tr("{\"deadlock\":1,\"step\":%d,\"at\":%d}\n", step, t);
        for (int i = 0; i < NT; i++) if (T[i].state == ST_READY) { int s = mslot(T[i].obj); tr("{\"blocked\":%d,\"op\":\"%s\",\"mutex_owner\":%d,\"owner_state\":%d}\n", i, OPN[T[i].op], M[s].owner, M[s].owner >= 0 ? T[M[s].owner].state : -1); }
        _exit(77);
    }
    int c = step < nprefix ? prefix[step] : 0;
    if (c >= n) { tr("{\"divergence\":1,\"step\":%d,\"choice\":%d,\"enabled\":%d}\n", step, c, n); _exit(78); }
    char eb[64]; int o = 0; for (int i = 0; i < n; i++) o += snprintf(eb + o, sizeof eb - o, "%s%d", i ? "," : "", E[i]);
    /* canonical state key: every thread's position (points passed) and status, the mutex model, the harness's view of the shared data */
    unsigned long long key = 1469598103934665603ULL;
    for (int i = 0; i < NT; i++) { key = (key ^ (unsigned long long)(T[i].npts * 4 + T[i].state)) * 1099511628211ULL; }
    for (int i = 0; i < MAXM; i++) if (M[i].addr) { key = (key ^ (unsigned long long)((M[i].owner + 2) * 16 + M[i].count)) * 1099511628211ULL; }
    if (vs_state_cb) key = (key ^ vs_state_cb()) * 1099511628211ULL;
    tr("{\"s\":%d,\"k\":\"%016llx\",\"t\":%d,\"op\":\"%s\",\"obj\":\"%lx\",\"re\":%d,\"en\":[%s],\"c\":%d}\n", step, key, t, t >= 0 ? OPN[T[t].op] : "-", t >= 0 ? (unsigned long)T[t].obj & 0xffffff : 0, (t >= 0 && n && E[0] == t), eb, c);
    step++;
    if (step > horizon) { tr("{\"horizon\":1}\n"); _exit(79); }
    return E[c];
}
static void point(int t, int op, void *obj) {
    T[t].op = op; T[t].obj = obj; T[t].npts++;
    int nx = decide(t);
    if (nx == t) return;
    cur = nx; set_flag(&T[nx].futex);
    wait_flag(&T[t].futex);
}

void vs_init(int nthreads) {
    NT = nthreads; active = 1; pid0 = getpid();
    const char *p = getenv("VS_PREFIX");
    while (p && *p && nprefix < 4096) { prefix[nprefix++] = (int)strtol(p, (char **)&p, 10); if (*p == ',') p++; }
    if (getenv("VS_FN")) fnpoints = 1;
    if (getenv("VS_HORIZON")) horizon = atoi(getenv("VS_HORIZON"));
    const char *tp = getenv("VS_TRACE"); if (tp) tracefd = open(tp, O_WRONLY | O_CREAT | O_TRUNC | O_CLOEXEC, 0644); trace_pid = getpid();
}
void vs_thread_begin(int t) {
    vs_tid = t; T[t].op = VS_START; T[t].obj = NULL; T[t].state = ST_READY;
    __atomic_add_fetch(&registered, 1, __ATOMIC_ACQ_REL); raw_futex(&registered, FUTEX_WAKE, 1);
    wait_flag(&T[t].futex);
}
void vs_thread_end(int t) {
    T[t].op = VS_END; T[t].obj = NULL;
    /* the end itself is a point (lets others be scheduled before this thread's last bytes) */
    point(t, VS_END, NULL);
    T[t].state = ST_DONE; vs_tid = -1;
    int nx = decide(-1);
    if (nx < 0) { set_flag(&main_futex); return; }
    cur = nx; set_flag(&T[nx].futex);
}
void vs_run(void) { /* main: wait until all threads are parked at their start point, then start scheduling */
    for (;;) { int r = __atomic_load_n(&registered, __ATOMIC_ACQUIRE); if (r >= NT) break; raw_futex(&registered, FUTEX_WAIT, r); }
    int nx = decide(-1);
    if (nx >= 0) { cur = nx; set_flag(&T[nx].futex); wait_flag(&main_futex); }
    active = 0;
}
int vs_mutex_lock(pthread_mutex_t *m) {
    int t = vs_tid;
    if (t >= 0 && active) {
        point(t, VS_LOCK, m); int s = mslot(m); M[s].owner = t; M[s].count++;
        /* the model says the mutex is free (or ours): confirm on the real primitive instead of blocking for ever */
        int r = pthread_mutex_trylock(m);
        if (r == EBUSY) { tr("{\"real_mutex_busy_although_model_free\":1,\"step\":%d,\"t\":%d}\n", step, t); _exit(77); }
        return r;
    }
    return pthread_mutex_lock(m);
}
int vs_mutex_unlock(pthread_mutex_t *m) {
    int t = vs_tid;
    if (t >= 0 && active) { point(t, VS_UNLOCK, m); int s = mslot(m); if (M[s].owner == t && M[s].count > 0) { if (--M[s].count == 0) M[s].owner = -1; } }
    return pthread_mutex_unlock(m);
}
int vs_mutex_init(pthread_mutex_t *m, const pthread_mutexattr_t *a) {
    int s = mslot(m);
    /* re-initialising a mutex that is locked is undefined behaviour - except in a freshly forked child, where the owner no longer exists */
    if (active && M[s].owner != -1 && getpid() == pid0) { tr("{\"reinit_of_locked_mutex\":1,\"step\":%d,\"owner\":%d}\n", step, M[s].owner); _exit(76); }
    M[s].owner = -1; M[s].count = 0;
    return pthread_mutex_init(m, a);
}
int vs_once(pthread_once_t *c, void (*f)(void)) {
    int t = vs_tid;
    if (t >= 0 && active) point(t, VS_ONCE, c);
    vs_nofn++; int r = pthread_once(c, f); vs_nofn--;
    return r;
}
/* write-type system calls issued by snoopy (only in variants compiled with -Dwrite=vs_write ...): a point before each, so that
 * two threads' file appends can be interleaved at system-call granularity */
#include <sys/uio.h>
ssize_t vs_write(int fd, const void *b, size_t n) { int t = vs_tid; if (t >= 0 && active) point(t, VS_USER, (void *)1); return write(fd, b, n); }
ssize_t vs_writev(int fd, const struct iovec *iov, int c) { int t = vs_tid; if (t >= 0 && active) point(t, VS_USER, (void *)2); return writev(fd, iov, c); }
/* a scheduling point on behalf of code outside this file (native/nonreentrant.c) */
void vs_point_user(long code) { int t = vs_tid; if (t >= 0 && active) point(t, VS_USER, (void *)code); }
/* a close() issued by the library that fails with EBADF closed something that was not (any longer) open: the second half of a double close
   - or the victim of another thread's double close, whose first half had freed the number for reuse */
static int bad_closes;
int vs_bad_closes(void) { return __atomic_load_n(&bad_closes, __ATOMIC_RELAXED); }
int vs_close(int fd) { int t = vs_tid; if (t >= 0 && active) point(t, VS_USER, (void *)3); int r = close(fd); if (r < 0 && errno == EBADF) { int e = errno; __atomic_add_fetch(&bad_closes, 1, __ATOMIC_RELAXED); errno = e; } return r; }
#include <stdio.h>
#include <sys/stat.h>
int vs_fprintf(FILE *f, const char *fmt, ...) { int t = vs_tid; if (t >= 0 && active) point(t, VS_USER, (void *)4); va_list ap; va_start(ap, fmt); int r = vfprintf(f, fmt, ap); va_end(ap); return r; }
int vs_printf(const char *fmt, ...) { int t = vs_tid; if (t >= 0 && active) point(t, VS_USER, (void *)4); va_list ap; va_start(ap, fmt); int r = vprintf(fmt, ap); va_end(ap); return r; }
int vs_fputs(const char *x, FILE *f) { int t = vs_tid; if (t >= 0 && active) point(t, VS_USER, (void *)5); return fputs(x, f); }
int vs_fputc(int c, FILE *f) { int t = vs_tid; if (t >= 0 && active) point(t, VS_USER, (void *)6); return fputc(c, f); }
int vs_puts(const char *x) { int t = vs_tid; if (t >= 0 && active) point(t, VS_USER, (void *)5); return puts(x); }
size_t vs_fwrite(const void *b, size_t a, size_t n, FILE *f) { int t = vs_tid; if (t >= 0 && active) point(t, VS_USER, (void *)7); return fwrite(b, a, n, f); }
int vs_fflush(FILE *f) { int t = vs_tid; if (t >= 0 && active) point(t, VS_USER, (void *)8); return fflush(f); }
mode_t vs_umask(mode_t m) { int t = vs_tid; if (t >= 0 && active) point(t, VS_USER, (void *)9); return umask(m); }
int vs_open(const char *p, int fl, ...) { int t = vs_tid; if (t >= 0 && active) point(t, VS_USER, (void *)10); mode_t m = 0; if (fl & O_CREAT) { va_list ap; va_start(ap, fl); m = va_arg(ap, mode_t); va_end(ap); } return open(p, fl, m); }
void vs_user_point(void *obj) { int t = vs_tid; if (t >= 0 && active) point(t, VS_USER, obj); }
pid_t vs_fork(void) {
    int t = vs_tid;
    if (t >= 0 && active) point(t, VS_FORK, NULL);
    vs_nofn++; pid_t p = fork(); vs_nofn--;
    if (p == 0 && t >= 0) {
        for (int i = 0; i < NT; i++) if (i != t && T[i].state != ST_DONE) T[i].state = ST_GONE;
        tr("{\"child_of_step\":%d}\n", step);
        nprefix = 0;   /* the child runs its single thread with default choices */
    }
    return p;
}
int vs_mutex_owner(pthread_mutex_t *m) { return M[mslot(m)].owner; }
int vs_steps(void) { return step; }
/* function-entry points (only in builds compiled with -finstrument-functions and VS_FN=1) */
void __cyg_profile_func_enter(void *fn, void *site) { (void)site; int t = vs_tid; if (t >= 0 && active && fnpoints && !vs_nofn) point(t, VS_FN, fn); }
void __cyg_profile_func_exit(void *fn, void *site) { (void)fn; (void)site; }
