/* sysx - ptrace executor (engine E3).
 *
 *   sysx -o out.json [--whole] [--fail K:ERRNO]... [--short K:N] [--kill K:entry|exit] [--retzero K]
 *        [--calltimeout MS] [--totaltimeout MS] -- prog args...
 *
 * Runs prog under PTRACE_SYSCALL.  System calls are numbered (from 0) in entry order, either over the
 * whole process life (--whole) or inside the window delimited by the tracee's marker calls
 * write(-1,"VERIF:BEGIN",11) / write(-1,"VERIF:END",9).
 *   --fail K:E      call K is not executed; it returns -E
 *   --failafter K:E call K IS executed (e.g. close really releases the descriptor, as on Linux); its result is replaced by -E
 *   --failfrom K:E  call K and EVERY later call of the same system call fail with -E (a persistent condition: catches retry-until-success loops)
 *   --failnr K:E:NR from call K on, every call with system-call number NR fails with -E (e.g. every later write after a short one)
 *   --retzero K     call K is not executed; it returns 0 (EOF for read)
 *   --short K:N     call K (read/write/sendto/...) has its length argument replaced by N
 *   --kill K:entry  SIGKILL immediately before call K executes;  K:exit immediately after it returned
 * Reports every numbered call (number, name, arguments, path argument, buffer length+hash for
 * write-like calls, result), every signal-delivery stop, the exit status, and - when a call does not
 * return within --calltimeout - which call blocked.
 */
#define _GNU_SOURCE
#include <errno.h>
#include <fcntl.h>
#include <signal.h>
#include <stdint.h>
#include <stdio.h>
#include <stdlib.h>
#include <string.h>
#include <sys/ptrace.h>
#include <sys/syscall.h>
#include <sys/time.h>
#include <sys/types.h>
#include <sys/uio.h>
#include <sys/user.h>
#include <sys/wait.h>
#include <unistd.h>

static const char *scname(long nr) {
    switch (nr) {
#define S(n) case SYS_##n: return #n;
        S(read) S(write) S(open) S(close) S(stat) S(fstat) S(lstat) S(poll) S(lseek) S(mmap) S(mprotect) S(munmap) S(brk) S(rt_sigaction) S(rt_sigprocmask) S(ioctl)
        S(pread64) S(pwrite64) S(readv) S(writev) S(access) S(pipe) S(dup) S(dup2) S(getpid) S(socket) S(connect) S(sendto) S(recvfrom) S(sendmsg) S(recvmsg) S(bind)
        S(clone) S(fork) S(vfork) S(execve) S(exit) S(wait4) S(kill) S(uname) S(fcntl) S(flock) S(fsync) S(fdatasync) S(truncate) S(ftruncate) S(getdents) S(getcwd) S(chdir)
        S(rename) S(mkdir) S(rmdir) S(creat) S(link) S(unlink) S(symlink) S(readlink) S(chmod) S(fchmod) S(chown) S(fchown) S(umask) S(gettimeofday) S(getuid) S(getgid)
        S(geteuid) S(getegid) S(getppid) S(getpgrp) S(setsid) S(getsid) S(gettid) S(time) S(futex) S(getdents64) S(clock_gettime) S(exit_group) S(openat) S(newfstatat)
        S(unlinkat) S(renameat) S(readlinkat) S(fchmodat) S(faccessat) S(pipe2) S(dup3) S(prlimit64) S(getrandom) S(statx) S(renameat2) S(faccessat2) S(fchownat) S(getresuid) S(getresgid)
        S(sysinfo) S(tgkill) S(set_tid_address) S(set_robust_list) S(arch_prctl) S(prctl) S(madvise) S(sched_getaffinity) S(rseq) S(clone3) S(sigaltstack) S(getpgid) S(utimensat)
#undef S
    }
    return "?";
}
static int path_arg(long nr) { /* index of a path argument, or -1 */
    switch (nr) {
    case SYS_open: case SYS_stat: case SYS_lstat: case SYS_access: case SYS_readlink: case SYS_unlink: case SYS_rename: case SYS_chdir: case SYS_mkdir: case SYS_rmdir: case SYS_creat:
    case SYS_chmod: case SYS_chown: case SYS_truncate: case SYS_execve: return 0;
    case SYS_openat: case SYS_newfstatat: case SYS_readlinkat: case SYS_unlinkat: case SYS_faccessat: case SYS_faccessat2: case SYS_renameat: case SYS_renameat2: case SYS_fchmodat: case SYS_statx: case SYS_fchownat: case SYS_utimensat: return 1;
    }
    return -1;
}
static int buf_args(long nr, int *bi, int *li) { /* write-like calls: buffer and length argument */
    switch (nr) { case SYS_write: case SYS_pwrite64: case SYS_sendto: *bi = 1; *li = 2; return 1; }
    return 0;
}
static uint64_t fnv(const unsigned char *s, size_t n) { uint64_t h = 1469598103934665603ULL; for (size_t i = 0; i < n; i++) { h ^= s[i]; h *= 1099511628211ULL; } return h; }
static ssize_t peek(pid_t pid, unsigned long addr, void *buf, size_t n) {
    struct iovec l = { buf, n }, r = { (void *)addr, n };
    ssize_t got = process_vm_readv(pid, &l, 1, &r, 1, 0);
    if (got >= 0) return got;
    /* partial page: byte-wise fall back for strings */
    size_t i = 0; for (; i < n; i += sizeof(long)) { errno = 0; long w = ptrace(PTRACE_PEEKDATA, pid, addr + i, 0); if (errno) break; memcpy((char *)buf + i, &w, (n - i) < sizeof(long) ? n - i : sizeof(long)); }
    return (ssize_t)(i > n ? n : i);
}
static void peek_str(pid_t pid, unsigned long addr, char *out, size_t cap) {
    size_t i = 0; out[0] = 0;
    while (i + 1 < cap) { errno = 0; long w = ptrace(PTRACE_PEEKDATA, pid, addr + i, 0); if (errno) break; char *c = (char *)&w; for (size_t k = 0; k < sizeof(long) && i + 1 < cap; k++, i++) { out[i] = c[k]; if (!c[k]) return; } }
    out[i] = 0;
}
static void jstr(FILE *f, const char *s) { fputc('"', f); for (; *s; s++) { unsigned char c = (unsigned char)*s; if (c == '"' || c == '\\') fprintf(f, "\\%c", c); else if (c < 32 || c > 126) fprintf(f, "\\u%04x", c); else fputc(c, f); } fputc('"', f); }

static volatile sig_atomic_t alarmed;
static void on_alarm(int s) { (void)s; alarmed = 1; }

#define MAXF 8
int main(int argc, char **argv) {
    const char *outp = NULL; int whole = 0; long failk[MAXF], faile[MAXF]; int nfail = 0; long shortk = -1, shortn = 0, killk = -1, retzero = -1, fak = -1, fae = 0, expectnr = -1, ffk = -1, ffe = 0, ffnr = -1, fnk = -1, fne = 0, fnnr = -1; int skipalloc = 0, diverged = 0; int kill_at_exit = 0;
    long calltimeout = 3000, totaltimeout = 20000, maxcalls = 20000, maxrec = 3000; int ai = 1; int runaway = 0;
    for (; ai < argc; ai++) {
        if (!strcmp(argv[ai], "--")) { ai++; break; }
        else if (!strcmp(argv[ai], "-o")) outp = argv[++ai];
        else if (!strcmp(argv[ai], "--whole")) whole = 1;
        else if (!strcmp(argv[ai], "--fail")) { sscanf(argv[++ai], "%ld:%ld", &failk[nfail], &faile[nfail]); nfail++; }
        else if (!strcmp(argv[ai], "--failafter")) { sscanf(argv[++ai], "%ld:%ld", &fak, &fae); }
        else if (!strcmp(argv[ai], "--failfrom")) { sscanf(argv[++ai], "%ld:%ld", &ffk, &ffe); }
        else if (!strcmp(argv[ai], "--failnr")) { sscanf(argv[++ai], "%ld:%ld:%ld", &fnk, &fne, &fnnr); }
        else if (!strcmp(argv[ai], "--retzero")) retzero = atol(argv[++ai]);
        else if (!strcmp(argv[ai], "--short")) sscanf(argv[++ai], "%ld:%ld", &shortk, &shortn);
        else if (!strcmp(argv[ai], "--kill")) { char w[16] = ""; sscanf(argv[++ai], "%ld:%15s", &killk, w); kill_at_exit = !strcmp(w, "exit"); }
        else if (!strcmp(argv[ai], "--calltimeout")) calltimeout = atol(argv[++ai]);
        else if (!strcmp(argv[ai], "--totaltimeout")) totaltimeout = atol(argv[++ai]);
        else if (!strcmp(argv[ai], "--maxcalls")) maxcalls = atol(argv[++ai]);
        else if (!strcmp(argv[ai], "--skipalloc")) skipalloc = 1;
        else if (!strcmp(argv[ai], "--expectnr")) expectnr = atol(argv[++ai]);
        else { fprintf(stderr, "sysx: bad option %s\n", argv[ai]); return 2; }
    }
    if (ai >= argc || !outp) { fprintf(stderr, "usage: sysx -o out [opts] -- prog args\n"); return 2; }
    FILE *out = fopen(outp, "w"); if (!out) { perror(outp); return 2; }
    pid_t pid = fork();
    if (pid == 0) { ptrace(PTRACE_TRACEME, 0, 0, 0); raise(SIGSTOP); execvp(argv[ai], argv + ai); perror("execvp"); _exit(127); }
    signal(SIGTTOU, SIG_IGN); signal(SIGTTIN, SIG_IGN);   /* the tracer may share a background process group with the tracee: only the tracee is to be stopped */
    int st; waitpid(pid, &st, 0);
    ptrace(PTRACE_SETOPTIONS, pid, 0, PTRACE_O_TRACESYSGOOD | PTRACE_O_EXITKILL);
    struct sigaction sa; memset(&sa, 0, sizeof sa); sa.sa_handler = on_alarm; sigaction(SIGALRM, &sa, NULL);
    struct timeval t0; gettimeofday(&t0, NULL);
    int in_sys = 0, in_window = whole; long idx = -1; long pend_ret = 0; int pend = 0; int killed_by_us = 0; long blocked_idx = -2; long cur_nr = -1; int counted = 0;
    int sig_to_deliver = 0; int nsig = 0; int sigs[64]; int winno = 0;
    fprintf(out, "{\"calls\":[");
    int first = 1; int exited = 0, exit_code = -1, term_sig = 0; int total_to = 0;
    for (;;) {
        if (ptrace(PTRACE_SYSCALL, pid, 0, sig_to_deliver) < 0) break;
        sig_to_deliver = 0;
        struct itimerval it; memset(&it, 0, sizeof it); it.it_value.tv_sec = calltimeout / 1000; it.it_value.tv_usec = (calltimeout % 1000) * 1000; alarmed = 0; setitimer(ITIMER_REAL, &it, NULL);
        int r = waitpid(pid, &st, 0);
        memset(&it, 0, sizeof it); setitimer(ITIMER_REAL, &it, NULL);
        if (r < 0 && errno == EINTR && alarmed) { /* the tracee is stuck in a system call (or spinning) */
            blocked_idx = in_sys ? (counted ? idx : -1) : -3; kill(pid, SIGKILL); waitpid(pid, &st, 0); killed_by_us = 1; break; }
        if (r < 0) break;
        struct timeval t1; gettimeofday(&t1, NULL);
        if ((t1.tv_sec - t0.tv_sec) * 1000 + (t1.tv_usec - t0.tv_usec) / 1000 > totaltimeout) { total_to = 1; kill(pid, SIGKILL); waitpid(pid, &st, 0); killed_by_us = 1; break; }
        if (WIFEXITED(st)) { exited = 1; exit_code = WEXITSTATUS(st); break; }
        if (WIFSIGNALED(st)) { term_sig = WTERMSIG(st); break; }
        if (!WIFSTOPPED(st)) continue;
        int sig = WSTOPSIG(st);
        if (sig != (SIGTRAP | 0x80)) { /* signal-delivery stop: record and deliver */
            if (sig != SIGTRAP) { if (nsig < 64) sigs[nsig++] = sig; sig_to_deliver = sig; }
            continue;
        }
        struct user_regs_struct regs; ptrace(PTRACE_GETREGS, pid, 0, &regs);
        if (!in_sys) { /* ---- entry */
            in_sys = 1; cur_nr = (long)regs.orig_rax; counted = 0; pend = 0;
            if (cur_nr == SYS_write && (int)regs.rdi == -1) { char m[16] = ""; peek(pid, regs.rsi, m, 11); if (!strncmp(m, "VERIF:BEGIN", 11)) { in_window = 1; winno++; continue; } if (!strncmp(m, "VERIF:END", 9)) { in_window = whole; continue; } }
            if (!in_window) continue;
            /* allocator / runtime calls vary from run to run (sanitizer heap growth): never numbered, never faulted */
            if (skipalloc && (cur_nr == SYS_mmap || cur_nr == SYS_munmap || cur_nr == SYS_brk || cur_nr == SYS_mprotect || cur_nr == SYS_madvise || cur_nr == SYS_futex || cur_nr == SYS_mremap)) continue;
            idx++; counted = 1;
            if (idx >= maxcalls) { runaway = 1; kill(pid, SIGKILL); waitpid(pid, &st, 0); killed_by_us = 1; counted = 0; break; }
            if (idx >= maxrec) {   /* numbered but no longer recorded - the persistent fault of --failfrom / --failnr still applies (a retry-until-success loop must reach maxcalls) */
                /* (not for EINTR: libc itself retries an interrupted call for as long as it is interrupted - TEMP_FAILURE_RETRY in getlogin_r() and others -
                   so a persistent EINTR lets go once the recording cap is reached; any other persistent error stays) */
                if (ffnr >= 0 && idx >= ffk && cur_nr == ffnr && ffe != 4) { regs.orig_rax = (unsigned long long)-1; ptrace(PTRACE_SETREGS, pid, 0, &regs); pend = 1; pend_ret = -ffe; }
                if (fnk >= 0 && idx >= fnk && cur_nr == fnnr && fne != 4) { regs.orig_rax = (unsigned long long)-1; ptrace(PTRACE_SETREGS, pid, 0, &regs); pend = 1; pend_ret = -fne; }
                counted = 0; continue; }
            if (!first) fputc(',', out); first = 0;
            fprintf(out, "\n{\"w\":%d,\"i\":%ld,\"nr\":%ld,\"name\":\"%s\",\"a\":[%lld,%lld,%lld,%lld]", winno, idx, cur_nr, scname(cur_nr), (long long)regs.rdi, (long long)regs.rsi, (long long)regs.rdx, (long long)regs.r10);
            int pa = path_arg(cur_nr);
            if (pa >= 0) { char p[512]; peek_str(pid, pa == 0 ? regs.rdi : regs.rsi, p, sizeof p); fprintf(out, ",\"path\":"); jstr(out, p); }
            if (cur_nr == SYS_connect) { unsigned char sa_[128]; memset(sa_, 0, sizeof sa_); size_t l = regs.rdx < sizeof sa_ ? regs.rdx : sizeof sa_ - 1; peek(pid, regs.rsi, sa_, l); if (l > 2) { fprintf(out, ",\"path\":"); jstr(out, (char *)sa_ + 2); } }
            int bi, li;
            if (buf_args(cur_nr, &bi, &li)) { size_t n = (size_t)regs.rdx; if (n <= (4u << 20)) { unsigned char *b = malloc(n + 1); ssize_t g = peek(pid, regs.rsi, b, n); if (g < 0) g = 0; fprintf(out, ",\"buf_len\":%zu,\"buf_fnv\":\"%016llx\"", n, (unsigned long long)fnv(b, (size_t)g));
                    if (n && b[g - 1] == '\n') fprintf(out, ",\"buf_ends_nl\":1"); free(b); } }
            if (cur_nr == SYS_writev) { /* total length, hash and last byte over the iovec array */
                long cnt = (long)regs.rdx; if (cnt > 0 && cnt <= 64) { struct iovec iv[64]; peek(pid, regs.rsi, iv, cnt * sizeof iv[0]); size_t tot = 0; for (long q = 0; q < cnt; q++) tot += iv[q].iov_len;
                    if (tot <= (4u << 20)) { unsigned char *b = malloc(tot + 1); size_t o = 0; for (long q = 0; q < cnt; q++) { ssize_t g = peek(pid, (unsigned long)iv[q].iov_base, b + o, iv[q].iov_len); if (g > 0) o += g; }
                        fprintf(out, ",\"buf_len\":%zu,\"buf_fnv\":\"%016llx\",\"iovcnt\":%ld", tot, (unsigned long long)fnv(b, o), cnt); if (o && b[o - 1] == '\n') fprintf(out, ",\"buf_ends_nl\":1"); free(b); } } }
            if (expectnr >= 0 && ((nfail && idx == failk[0]) || idx == retzero || idx == shortk || idx == fak || idx == ffk) && cur_nr != expectnr) { diverged = 1; fprintf(out, ",\"diverged_expected_nr\":%ld}", expectnr); kill(pid, SIGKILL); waitpid(pid, &st, 0); killed_by_us = 1; counted = 0; break; }
            for (int f = 0; f < nfail; f++) if (idx == failk[f]) { regs.orig_rax = (unsigned long long)-1; ptrace(PTRACE_SETREGS, pid, 0, &regs); pend = 1; pend_ret = -faile[f]; fprintf(out, ",\"injected\":%ld", -faile[f]); }
            if (fnk >= 0 && idx >= fnk && cur_nr == fnnr) { regs.orig_rax = (unsigned long long)-1; ptrace(PTRACE_SETREGS, pid, 0, &regs); pend = 1; pend_ret = -fne; fprintf(out, ",\"injected\":%ld", -fne); }
            if (ffk >= 0 && idx == ffk) ffnr = cur_nr;
            if (ffnr >= 0 && idx >= ffk && cur_nr == ffnr) { regs.orig_rax = (unsigned long long)-1; ptrace(PTRACE_SETREGS, pid, 0, &regs); pend = 1; pend_ret = -ffe; fprintf(out, ",\"injected\":%ld", -ffe); }
            if (idx == retzero) { regs.orig_rax = (unsigned long long)-1; ptrace(PTRACE_SETREGS, pid, 0, &regs); pend = 1; pend_ret = 0; fprintf(out, ",\"injected\":0"); }
            if (idx == shortk) { regs.rdx = (unsigned long long)shortn; ptrace(PTRACE_SETREGS, pid, 0, &regs); fprintf(out, ",\"shortened\":%ld", shortn); }
            if (idx == killk && !kill_at_exit) { fprintf(out, ",\"killed\":\"entry\"}"); kill(pid, SIGKILL); waitpid(pid, &st, 0); killed_by_us = 1; counted = 0; break; }
        } else { /* ---- exit */
            in_sys = 0;
            if (!counted && pend) { ptrace(PTRACE_GETREGS, pid, 0, &regs); regs.rax = (unsigned long long)pend_ret; ptrace(PTRACE_SETREGS, pid, 0, &regs); }   /* unrecorded call under a persistent fault */
            if (!counted) continue;
            if (pend) { regs.rax = (unsigned long long)pend_ret; ptrace(PTRACE_SETREGS, pid, 0, &regs); }
            if (idx == fak) { regs.rax = (unsigned long long)(-fae); ptrace(PTRACE_SETREGS, pid, 0, &regs); fprintf(out, ",\"result_replaced\":%ld", -fae); }   /* the call was executed; only its result is replaced */
            fprintf(out, ",\"ret\":%lld", (long long)regs.rax);
            if (idx == killk && kill_at_exit) { fprintf(out, ",\"killed\":\"exit\"}"); kill(pid, SIGKILL); waitpid(pid, &st, 0); killed_by_us = 1; counted = 0; break; }
            fputc('}', out); counted = 0;
        }
    }
    if (counted && in_sys) fprintf(out, ",\"ret\":null}");
    fprintf(out, "\n],\"ncalls\":%ld,\"signals\":[", idx + 1);
    for (int i = 0; i < nsig; i++) fprintf(out, "%s%d", i ? "," : "", sigs[i]);
    fprintf(out, "],\"exited\":%d,\"exit_code\":%d,\"term_sig\":%d,\"killed_by_sysx\":%d,\"blocked_call\":%ld,\"total_timeout\":%d,\"runaway\":%d,\"diverged\":%d}\n", exited, exit_code, term_sig, killed_by_us, blocked_idx, total_to, runaway, diverged);
    fclose(out);
    return 0;
}
