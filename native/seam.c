/* Configuration-file path seam: SNOOPY_CONF_CONFIGFILE_PATH expands to this variable in the
 * generated config.h, so the production code path (CFG->configfile_path) is exercised while each
 * harness process points it at its own file.  In the shared-library build (for `snoopyctl conf`)
 * the path comes from the environment. */
#include <stdlib.h>
#include <string.h>
__attribute__((visibility("default"))) char verif_cfgpath[4096] = "/nonexistent/verif/snoopy.ini";
#ifdef VERIF_SEAM_FROM_ENV
__attribute__((constructor)) static void verif_seam_init(void) {
    const char *p = getenv("VERIF_SNOOPY_INI");
    if (p && strlen(p) < sizeof verif_cfgpath) strcpy(verif_cfgpath, p);
}
#endif

/* Compiled-in configuration seam ("compiled_in" variants: ./configure --disable-config-file --with-message-format=... --with-filter-chain=...
 * --with-default-output=...): the SNOOPY_CONF_* string macros expand to these variables, so one build serves every compiled-in setting. */
__attribute__((visibility("default"))) char verif_def_format[65536] = "%{cmdline}";
__attribute__((visibility("default"))) char verif_def_chain[8192] = "";
__attribute__((visibility("default"))) char verif_def_output[256] = "devlog";
__attribute__((visibility("default"))) char verif_def_output_arg[8192] = "";
__attribute__((visibility("default"))) char verif_def_ident[8192] = "snoopy";
