/* h_thr: N threads each making K wrapped execve calls (which fail in the recorder) under vsched.
 * usage: h_thr <cfgpath> <resultfile> <N> <K> <mode: calls|fork> [forkdepth]
 * mode fork: thread 0 forks (vs_fork) and the child makes a wrapped execve of its own (optionally after forking again),
 *            threads 1.. make K calls each.
 * Result file (JSON): per-thread pthread ids, registry state after join, lone-call marker, child statuses. */
#include <errno.h>
#include <pthread.h>
#include <stdio.h>
#include <stdlib.h>
#include <string.h>
#include <unistd.h>
#include <sys/wait.h>
#include <sys/stat.h>
#include <fcntl.h>
#include <sys/syscall.h>
#include <linux/futex.h>
#include "vsched.h"
#include "snoopy.h"
#include "util/list-snoopy.h"
extern char verif_cfgpath[4096];
extern list_t snoopy_tsrm_threadRepo_data;
extern pthread_mutex_t snoopy_tsrm_threadRepo_mutex;
typedef int (*verif_rec_cb_t)(int, const char *, char *const[], char *const[]);
extern verif_rec_cb_t verif_rec_cb;
static int N, K, forkmode, forkdepth = 1;
static unsigned long ptid[8]; static int rec_calls[8]; static int bad_ret[8];
static int all_done;
static __thread int me = -1;
static int child_status = -1, child_reached = 0;
static const char *resfile;
/* digest of the shared registry for state-hashed exploration: the list as a sequence of LOGICAL thread numbers + count */
#include "tsrm.h"
__attribute__((no_sanitize("thread"), no_sanitize("address"))) static unsigned long long state_digest(void) {   /* scheduler-side read of shared data: must be invisible to the race detector */
    unsigned long long h = 77; int n = 0;
    for (listNode_t *nd = snoopy_tsrm_threadRepo_data.first; nd && n < 16; nd = nd->next, n++) { int who = 9; snoopy_tsrm_threadData_t *td = nd->value; if (td) for (int i = 0; i < N; i++) if ((unsigned long)td->threadId == ptid[i]) who = i; h = h * 31 + (unsigned long long)who + 1; }
    return h * 31 + (unsigned long long)snoopy_tsrm_threadRepo_data.count;
}
/* descriptors the image started by THIS exec would inherit although the caller never opened them: anything that is open without
   close-on-exec at the moment of the real exec and was not open before the threads started (e.g. another thread's log file) */
static unsigned char fd_base[256]; static int inheritable_seen, inheritable_fd = -1;
static void fd_baseline(void) { for (int fd = 0; fd < 256; fd++) fd_base[fd] = fcntl(fd, F_GETFD) >= 0; }
static int cb(int is_execve, const char *p, char *const a[], char *const e[]) { (void)is_execve; (void)p; (void)a; (void)e; if (me >= 0) rec_calls[me]++; else rec_calls[7]++;
    for (int fd = 3; fd < 256; fd++) { int fl; if (!fd_base[fd] && (fl = fcntl(fd, F_GETFD)) >= 0 && !(fl & FD_CLOEXEC)) { char lp[64], tg[512]; snprintf(lp, sizeof lp, "/proc/self/fd/%d", fd); ssize_t tl = readlink(lp, tg, sizeof tg - 1); tg[tl > 0 ? tl : 0] = 0;
            const char *bn = strrchr(tg, '/'); bn = bn ? bn + 1 : tg; if (!strncmp(bn, "tsan.", 5) || !strncmp(bn, "asan.", 5) || !strncmp(bn, "ubsan.", 6)) continue;   /* the sanitizer's own report file */ __atomic_add_fetch(&inheritable_seen, 1, __ATOMIC_RELAXED); __atomic_store_n(&inheritable_fd, fd, __ATOMIC_RELAXED); } }
    errno = ENOENT; return -1; }
static int reader_in_fgets;
static void *stdio_reader(void *arg) { int *rp = arg; FILE *f = fdopen(rp[0], "r"); char b[64]; __atomic_store_n(&reader_in_fgets, 1, __ATOMIC_RELEASE); if (f && fgets(b, sizeof b, f)) {} return NULL; }
static void one_call(int t, int j) {
    char path[64], a1[64], a2[64]; snprintf(path, sizeof path, "/t%d/prog%d", t, j); snprintf(a1, sizeof a1, "arg-t%d-j%d", t, j); snprintf(a2, sizeof a2, "T%dT%dT%d", t, t, t);
    char *av[] = { "cmd", a1, a2, NULL }; char *ev[] = { "A=1", NULL };
    errno = 0; int r = execve(path, av, ev); if (r != -1 || errno != ENOENT) bad_ret[t < 0 ? 7 : t]++;
}
static void *child_thread_exec(void *arg) { int *ok = arg; int before = rec_calls[7]; char *av[] = { "childcmd", "childarg", NULL }; char *ev[] = { NULL }; errno = 0; int r = execve("/child/prog", av, ev); *ok = (r == -1 && errno == ENOENT && rec_calls[7] == before + 1); return NULL; }
static void child_body(int depth) {
    /* runs in the forked child: optionally fork again, then make one wrapped call */
    if (depth == 11) {   /* the child becomes multithreaded itself: a NEW thread of the child makes the call (and a second one forks) while the forking thread just waits */
        int ok = 0, ok2 = 0; pthread_t t1, t2; pthread_create(&t1, NULL, child_thread_exec, &ok); pthread_join(t1, NULL);
        pthread_create(&t2, NULL, child_thread_exec, &ok2); pthread_join(t2, NULL);
        _exit(ok && ok2 ? 0 : 3);
    }
    if (depth > 1) { pid_t p = vs_fork(); if (p > 0) { int st; waitpid(p, &st, 0); _exit(WIFEXITED(st) ? WEXITSTATUS(st) : 99); } if (p == 0) { child_body(depth - 1); } }
    int before = rec_calls[0];
    char *av[] = { "childcmd", "childarg", NULL }; char *ev[] = { NULL };
    errno = 0; int r = execve("/child/prog", av, ev);
    _exit((r == -1 && errno == ENOENT && rec_calls[0] == before + 1) ? 0 : 3);
}
static void *body(void *arg) {
    int t = (int)(long)arg; me = t; ptid[t] = (unsigned long)pthread_self();
    vs_thread_begin(t);
    if (forkmode && t == 0) {
        pid_t p = vs_fork();
        if (p == 0) child_body(forkdepth);
        int st = 0; waitpid(p, &st, 0); child_status = WIFEXITED(st) ? WEXITSTATUS(st) : 1000 + WTERMSIG(st); child_reached = 1;
    } else {
        for (int j = 0; j < K; j++) one_call(t, j);
    }
    vs_thread_end(t);
    /* do not exit yet: a thread's teardown (sanitizer thread registry, libc stack cache) runs outside the scheduler's control and holds
       internal locks; a fork() taken by another thread meanwhile would copy such a lock in the locked state into the child (a harness
       artefact, seen as a rare child hang).  Finished threads stay parked until every thread is done. */
    while (!__atomic_load_n(&all_done, __ATOMIC_ACQUIRE)) syscall(SYS_futex, &all_done, FUTEX_WAIT, 0, NULL, NULL, 0);
    return NULL;
}
extern int verif_nonreentrant_calls;
int main(int argc, char **argv) {
    if (argc < 6) return 2;
    strncpy(verif_cfgpath, argv[1], 4095); resfile = argv[2]; N = atoi(argv[3]); K = atoi(argv[4]); forkmode = !strcmp(argv[5], "fork"); if (argc > 6) forkdepth = atoi(argv[6]);
    verif_rec_cb = cb;
    umask(027);
    if (getenv("VS_STDIN_PTY")) { int m = posix_openpt(O_RDWR | O_NOCTTY); grantpt(m); unlockpt(m); int sl = open(ptsname(m), O_RDWR | O_NOCTTY); dup2(sl, 0); close(sl); }
    /* caller states: stderr/stdout a pipe whose reader is gone; a thread of the program (not one of the calling threads) blocked inside
       a stdio read - it holds that stream's lock for as long as it waits */
    { const char *g = getenv("VS_STD_GONE"); for (; g && *g; g++) { int p[2]; if (pipe(p)) return 3; close(p[0]); dup2(p[1], *g - '0'); close(p[1]); } }
    if (getenv("VS_STDIO_READER")) { static int rp[2]; static pthread_t rt; if (pipe(rp)) return 3; pthread_create(&rt, NULL, stdio_reader, rp); while (!__atomic_load_n(&reader_in_fgets, __ATOMIC_ACQUIRE)) usleep(1000); usleep(20000); }
    vs_init(N); vs_state_cb = state_digest;
    fd_baseline();
    pthread_t th[8];
    for (long i = 0; i < N; i++) pthread_create(&th[i], NULL, body, (void *)i);
    vs_run();
    __atomic_store_n(&all_done, 1, __ATOMIC_RELEASE); syscall(SYS_futex, &all_done, FUTEX_WAKE, 64, NULL, NULL, 0);
    for (int i = 0; i < N; i++) pthread_join(th[i], NULL);
    /* all calls have returned: the library must hold no per-thread state */
    int count = snoopy_tsrm_threadRepo_data.count, first_null = snoopy_tsrm_threadRepo_data.first == NULL, last_null = snoopy_tsrm_threadRepo_data.last == NULL;
    int tl = pthread_mutex_trylock(&snoopy_tsrm_threadRepo_mutex); if (tl == 0) pthread_mutex_unlock(&snoopy_tsrm_threadRepo_mutex);
    /* a later lone call */
    { char *av[] = { "LONE", NULL }; char *ev[] = { NULL }; errno = 0; int r = execve("/lone", av, ev); if (r != -1 || errno != ENOENT) bad_ret[7]++; }
    mode_t um_end = umask(027);
    FILE *f = fopen(resfile, "w");
    fprintf(f, "{\"n\":%d,\"k\":%d,\"ptid\":[", N, K); for (int i = 0; i < N; i++) fprintf(f, "%s%lu", i ? "," : "", ptid[i]);
    fprintf(f, "],\"rec_calls\":["); for (int i = 0; i < N; i++) fprintf(f, "%s%d", i ? "," : "", rec_calls[i]);
    int badr = 0; for (int i = 0; i < 8; i++) badr += bad_ret[i];
    fprintf(f, "],\"lone_rec_calls\":%d,\"bad_ret\":%d,\"repo_count\":%d,\"repo_first_null\":%d,\"repo_last_null\":%d,\"mutex_trylock\":%d,\"child_status\":%d,\"child_reached\":%d,\"steps\":%d,\"umask_end\":%d,\"inheritable_at_exec\":%d,\"inheritable_fd\":%d,\"bad_closes\":%d,\"nonreentrant_libc_calls\":%d}\n",
            rec_calls[7], badr, count, first_null, last_null, tl, child_status, child_reached, vs_steps(), (int)um_end, inheritable_seen, inheritable_fd, vs_bad_closes(), verif_nonreentrant_calls);
    fclose(f);
    return 0;
}
