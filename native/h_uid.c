/* h_uid: exhaustive uid-filter check (C14).  For each "<uid> <item>..." line on stdin: become real uid <uid>
 * (effective uid 4242, saved 0), enumerate every ordered list with repetition of 1..maxlen items, plus long lists with the
 * uid at every position or absent, call only_uid / exclude_uid / only_root through the filter registry and compare with
 * plain set membership (reference: strtoull of each item == uid).
 * usage: h_uid <maxlen> ; output: "uid=<u> lists=<n> mismatches=<m>" and one "MISMATCH ..." line per disagreement (first 50). */
#define _GNU_SOURCE
#include <sched.h>
#include <sys/mount.h>
#include <stdio.h>
#include <stdlib.h>
#include <string.h>
#include <unistd.h>
#include <grp.h>
#include <errno.h>
#include "snoopy.h"
#include "init-deinit.h"
#include "filterregistry.h"
extern char verif_cfgpath[4096];
static char *items[64]; static int nitems; static unsigned long long U; static long nl, nm; static int shown;
static int ambient_errno;   /* the caller's errno when the filter runs: part of the process state, must not influence the decision */
static void check(const char *list, int member) {
    errno = ambient_errno; int o = snoopy_filterregistry_callByName("only_uid", list); errno = ambient_errno; int x = snoopy_filterregistry_callByName("exclude_uid", list); errno = ambient_errno; int r = snoopy_filterregistry_callByName("only_root", "");
    nl++;
    int bad = (o != (member ? SNOOPY_FILTER_PASS : SNOOPY_FILTER_DROP)) || (x != (member ? SNOOPY_FILTER_DROP : SNOOPY_FILTER_PASS)) || (o == x) || (r != (U == 0 ? SNOOPY_FILTER_PASS : SNOOPY_FILTER_DROP));
    if (bad) { nm++; if (shown++ < 50) printf("MISMATCH errno_before=%d uid=%llu list=%.200s member=%d only_uid=%d exclude_uid=%d only_root=%d\n", ambient_errno, U, list, member, o, x, r); }
}
static void rec(char *buf, size_t len, int depth, int maxlen, int member) {
    if (depth > 0) check(buf, member);
    if (depth == maxlen) return;
    for (int i = 0; i < nitems; i++) {
        size_t l = strlen(items[i]); size_t nl2 = len;
        if (depth > 0) buf[nl2++] = ',';
        memcpy(buf + nl2, items[i], l + 1);
        rec(buf, nl2 + l, depth + 1, maxlen, member || strtoull(items[i], NULL, 10) == U);
        buf[len] = 0;
    }
}
int main(int argc, char **argv) {
    int maxlen = argc > 1 ? atoi(argv[1]) : 3; static char line[1 << 16]; static char buf[1 << 16];
    strcpy(verif_cfgpath, "/nonexistent/verif/snoopy.ini");
    /* a user database of the harness's making (private mount namespace): e.g. login names that consist of digits */
    { const char *etc = getenv("VERIF_ETC_DIR"); if (etc && *etc) { char a[4096], b[4096]; snprintf(a, sizeof a, "%s/passwd", etc); snprintf(b, sizeof b, "%s/group", etc);
        if (unshare(CLONE_NEWNS) || mount("none", "/", NULL, MS_REC | MS_PRIVATE, NULL) || mount(a, "/etc/passwd", NULL, MS_BIND, NULL) || mount(b, "/etc/group", NULL, MS_BIND, NULL)) { perror("bind user database"); return 3; } } }
    while (fgets(line, sizeof line, stdin)) {
        nitems = 0; char *sv = NULL; char *t = strtok_r(line, " \n", &sv); if (!t) continue; U = strtoull(t, NULL, 10);
        while ((t = strtok_r(NULL, " \n", &sv)) && nitems < 64) items[nitems++] = t;
        if (setresuid(0, 0, 0)) { perror("setresuid back"); return 3; }
        setgroups(0, NULL);
        if (setresuid((uid_t)U, 4242, 0)) { perror("setresuid"); return 3; }
        if ((unsigned long long)getuid() != U) { fprintf(stderr, "uid not assumed\n"); return 3; }
        nl = nm = 0; shown = 0; buf[0] = 0;
        snoopy_init();
        int errs[] = { 0, ERANGE, EINVAL, ENOENT };
        for (int ei = 0; ei < 4; ei++) { ambient_errno = errs[ei]; buf[0] = 0; rec(buf, 0, 0, ei == 0 ? maxlen : (maxlen > 2 ? 2 : maxlen), 0); }
        ambient_errno = ERANGE;
        /* long lists: fillers that are not the uid, with the uid at every position, duplicated, or absent */
        int sizes[] = { 10, 50, 200 };
        for (int si = 0; si < 3; si++) { int n = sizes[si];
            for (int pos = -1; pos < n; pos++) { size_t o = 0; for (int i = 0; i < n; i++) { if (i) buf[o++] = ','; if (i == pos || (pos >= 0 && si == 1 && i == n - 1 - pos)) o += sprintf(buf + o, "%llu", U); else o += sprintf(buf + o, "%llu", (U + 7 + i * 13) % 4294967294ULL == U ? U + 1 : (U + 7 + i * 13) % 4294967294ULL); } buf[o] = 0; check(buf, pos >= 0); } }
        snoopy_cleanup();
        printf("uid=%llu lists=%ld mismatches=%ld\n", U, nl, nm); fflush(stdout);
    }
    return 0;
}
