/* h_interleave (C09, one fixed real-kernel schedule): written by a round-7 review sub-agent as the demonstration of a regression of fix 46f6b09, kept as a harness.
 * Exit 0 = every line is one thread's record, 1 = records mixed, anything else = the schedule could not be set up.
 *
 * Two threads of one process, each making one failing exec call; output = stdout, which is a pipe that is
 * read slowly (a log collector that is a little behind). Records are longer than PIPE_BUF (4096).
 *
 * Schedule (fixed by interposing poll(): the library calls it through its PLT, this executable is linked
 * with -rdynamic and comes first in the lookup order):
 *
 *   pipe: 4 pages, 3 of them filled with older output, nobody reading at the moment
 *   T2 : exec call ... poll(stdout) says "writable" ... [preempted here]
 *   T1 : exec call ... poll(stdout) says "writable" ... write: first 4096 bytes go in, pipe full, T1 sleeps
 *   T2 : [continues] write: pipe full, T2 sleeps
 *   reader: takes one page every 30 ms until both threads are through
 *
 * Every line the reader gets must be filler, T1's record or T2's record. Exit 0 if so, 1 if a line mixes them.
 */
#define _GNU_SOURCE
#include <errno.h>
#include <fcntl.h>
#include <poll.h>
#include <pthread.h>
#include <semaphore.h>
#include <stdio.h>
#include <stdlib.h>
#include <string.h>
#include <sys/ioctl.h>
#include <sys/syscall.h>
#include <unistd.h>

#define PAGE     4096
#define PAYLOAD  10000

extern char **environ;
static sem_t      parked, resume;
static pthread_t  th[2];
static pid_t      tid[2];
static volatile int done[2];
static volatile int parkT2 = 1;
static int        rfd;

int poll (struct pollfd *fds, nfds_t nfds, int timeout)
{
    struct timespec ts, *tsp = NULL;
    int rv;
    if (timeout >= 0) { ts.tv_sec = timeout / 1000; ts.tv_nsec = (timeout % 1000) * 1000000L; tsp = &ts; }
    rv = (int) syscall(SYS_ppoll, fds, nfds, tsp, NULL, 0);
    if (parkT2 && (nfds == 1) && (fds[0].fd == 1) && (syscall(SYS_gettid) == tid[1])) {
        parkT2 = 0;
        sem_post(&parked);
        sem_wait(&resume);
    }
    return rv;
}

static void *worker (void *arg)
{
    int   me = (int) (long) arg;
    char *payload = malloc(PAYLOAD + 1);
    char *argv[3];
    tid[me] = (pid_t) syscall(SYS_gettid);
    memset(payload, me ? 'B' : 'A', PAYLOAD); payload[PAYLOAD] = 0;
    argv[0] = me ? "T2" : "T1"; argv[1] = payload; argv[2] = NULL;
    execve(me ? "/nonexistent/T2" : "/nonexistent/T1", argv, environ);
    done[me] = 1;
    return NULL;
}

static int sleepsInWrite (pid_t t)     /* thread t sleeps inside write()/writev() */
{
    char path[64], buf[128]; int fd; ssize_t n;
    snprintf(path, sizeof path, "/proc/self/task/%d/syscall", (int) t);
    fd = open(path, O_RDONLY); if (fd < 0) return 0;
    n = read(fd, buf, sizeof buf - 1); close(fd); if (n <= 0) return 0; buf[n] = 0;
    return (atoi(buf) == SYS_writev) || (atoi(buf) == SYS_write);
}

static void waitFor (int (*cond)(void), const char *what)
{
    int i;
    for (i = 0; i < 1000; i++) { if (cond()) return; usleep(10000); }
    fprintf(stderr, "SCHEDULE NOT REACHED: %s\n", what); exit(98);
}
static int sleepsOnLock (pid_t t)      /* (an implementation that serialises the writers with a lock parks T2 there) */
{
    char path[64], buf[128]; int fd; ssize_t n;
    snprintf(path, sizeof path, "/proc/self/task/%d/syscall", (int) t);
    fd = open(path, O_RDONLY); if (fd < 0) return 0;
    n = read(fd, buf, sizeof buf - 1); close(fd); if (n <= 0) return 0; buf[n] = 0;
    return (atoi(buf) == SYS_futex);
}
static int c_pipeFull (void) { if (sleepsOnLock(tid[0])) return 1;  /* writers serialised by a lock T2 holds: fine too */
    int n = 0; ioctl(rfd, FIONREAD, &n); return (n == 4*PAGE) && sleepsInWrite(tid[0]); }
static int c_t2Asleep (void) { return sleepsInWrite(tid[1]) || sleepsOnLock(tid[1]) || done[1]; }

int main (void)
{
    int     p[2], i, bad = 0, nA = 0, nB = 0;
    char   *all = malloc(1 << 20), *line, *nl;
    size_t  got = 0;
    char    filler[PAGE];

    sem_init(&parked, 0, 0); sem_init(&resume, 0, 0);
    if (pipe(p) || (fcntl(p[1], F_SETPIPE_SZ, 4*PAGE) != 4*PAGE)) { perror("pipe"); return 98; }
    rfd = p[0];
    dup2(p[1], 1); close(p[1]);
    fcntl(rfd, F_SETFL, O_NONBLOCK);

    memset(filler, '.', PAGE); filler[PAGE-1] = '\n';
    for (i = 0; i < 3; i++) if (write(1, filler, PAGE) != PAGE) return 98;

    pthread_create(&th[1], NULL, worker, (void *) 1L);
    sem_wait(&parked);                                   /* T2 has its "writable" answer */
    pthread_create(&th[0], NULL, worker, (void *) 0L);
    waitFor(c_pipeFull, "T1 asleep in its write with the pipe full (or on a lock)");
    sem_post(&resume);
    waitFor(c_t2Asleep, "T2 asleep in its write (or on a lock, or through)");

    while (!(done[0] && done[1])) {                      /* the slow reader */
        ssize_t n = read(rfd, all + got, PAGE);
        if (n > 0) got += (size_t) n;
        usleep(30000);
    }
    for (;;) { ssize_t n = read(rfd, all + got, PAGE); if (n <= 0) break; got += (size_t) n; }
    all[got] = 0;

    for (line = all; (nl = strchr(line, '\n')) != NULL; line = nl + 1) {
        size_t len = (size_t) (nl - line);
        *nl = 0;
        if (len == PAGE-1 && strspn(line, ".") == len) continue;
        if (len == PAYLOAD+3 && 0 == strncmp(line, "T1 ", 3) && strspn(line+3, "A") == PAYLOAD) { nA++; continue; }
        if (len == PAYLOAD+3 && 0 == strncmp(line, "T2 ", 3) && strspn(line+3, "B") == PAYLOAD) { nB++; continue; }
        bad++;
        fprintf(stderr, "damaged line, %zu bytes: starts \"%.6s\", %zu x 'A', %zu x 'B', first switch at byte %zu\n", len, line,
            ({ size_t c = 0, k; for (k = 0; k < len; k++) c += (line[k] == 'A'); c; }),
            ({ size_t c = 0, k; for (k = 0; k < len; k++) c += (line[k] == 'B'); c; }),
            strspn(line + 3, (line[3] == 'A') ? "A" : "B") + 3);
    }
    fprintf(stderr, "intact records: T1 %d, T2 %d; damaged lines: %d; trailing bytes without newline: %zu\n", nA, nB, bad, strlen(line));
    return (bad || *line || nA > 1 || nB > 1) ? 1 : 0;
}
