/* h_cli: batch runner for the real snoopyctl binary.
 * usage: h_cli <snoopyctl> <preload-file-path> <libsnoopy.so path>
 * stdin lines:  <hex initial content | -(absent)> <sequence of e(nable) d(isable) s(tatus); E D S = with descriptors 0-2 closed; x / c = remove / recreate the library file>
 * stdout line:  one token per step:  <exit code>:<hex content | ->:<status says OK 0/1>   */
#include <stdio.h>
#include <stdlib.h>
#include <string.h>
#include <unistd.h>
#include <fcntl.h>
#include <sys/wait.h>
#include <sys/stat.h>
static int hexv(int c) { return c <= '9' ? c - '0' : (c | 32) - 'a' + 10; }
int main(int argc, char **argv) {
    if (argc < 4) return 2;
    const char *cli = argv[1], *pf = argv[2], *lib = argv[3];
    setenv("SNOOPY_TEST_LD_SO_PRELOAD_PATH", pf, 1); setenv("SNOOPY_TEST_LIBSNOOPY_SO_PATH", lib, 1); unsetenv("LD_PRELOAD");
    static char line[1 << 20]; static unsigned char buf[1 << 19];
    while (fgets(line, sizeof line, stdin)) {
        char *sp = strchr(line, ' '); if (!sp) continue; *sp = 0; char *seq = sp + 1; seq[strcspn(seq, "\n")] = 0;
        unlink(pf);
        if (strcmp(line, "-")) { size_t n = strlen(line) / 2; for (size_t i = 0; i < n; i++) buf[i] = (unsigned char)(hexv(line[2 * i]) * 16 + hexv(line[2 * i + 1])); int fd = open(pf, O_WRONLY | O_CREAT | O_TRUNC, 0644); if (write(fd, buf, n) != (ssize_t)n) return 3; close(fd); }
        for (char *c = seq; *c; c++) {
            /* x / c: the library file itself disappears / comes back (uninstall order); no command is run */
            if (*c == 'x' || *c == 'c') { if (*c == 'x') unlink(lib); else { int lf = open(lib, O_WRONLY | O_CREAT, 0644); if (lf >= 0) close(lf); }
                printf("0:"); int fd0 = open(pf, O_RDONLY); if (fd0 < 0) printf("-"); else { ssize_t n = read(fd0, buf, sizeof buf); close(fd0); if (n == 0) printf("."); for (ssize_t i = 0; i < n; i++) printf("%02x", buf[i]); } printf(":0 "); continue; }
            /* upper case: the same command started with descriptors 0, 1 and 2 closed (as from a daemon or `cmd <&- >&- 2>&-`) */
            int closed = (*c == 'E' || *c == 'D' || *c == 'S'); int lc = closed ? *c + 32 : *c;
            const char *act = lc == 'e' ? "enable" : lc == 'd' ? "disable" : "status";
            int p[2]; if (pipe(p)) return 3;
            pid_t pid = fork();
            if (pid == 0 && closed) { close(p[0]); close(p[1]); close(0); close(1); close(2); execl(cli, cli, act, (char *)NULL); _exit(126); }
            if (pid == 0) { dup2(p[1], 1); int n = open("/dev/null", O_WRONLY); dup2(n, 2); close(p[0]); close(p[1]); execl(cli, cli, act, (char *)NULL); _exit(126); }
            close(p[1]); static char ob[1 << 16]; size_t on = 0; ssize_t r; while ((r = read(p[0], ob + on, sizeof ob - 1 - on)) > 0) on += r; ob[on] = 0; close(p[0]);
            int st = 0; waitpid(pid, &st, 0); int rc = WIFEXITED(st) ? WEXITSTATUS(st) : 1000 + WTERMSIG(st);
            int okflag = strstr(ob, "/etc/ld.so.preload:            OK - Snoopy is enabled.") != NULL;
            printf("%d:", rc);
            int fd = open(pf, O_RDONLY);
            if (fd < 0) printf("-"); else { ssize_t n = read(fd, buf, sizeof buf); close(fd); if (n == 0) printf("."); for (ssize_t i = 0; i < n; i++) printf("%02x", buf[i]); }
            printf(":%d ", okflag);
        }
        printf("\n"); fflush(stdout);
    }
    return 0;
}
