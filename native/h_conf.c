/* h_conf: for each configuration file content given on stdin (one hex string per line) write it to
 * the configuration path, run the library's real init path (snoopy_init -> configuration ctor ->
 * inih -> option parsers), print every option through the same API `snoopyctl conf` uses
 * (snoopy_configfile_optionRegistry_getOptionValueAsString), then snoopy_cleanup().
 * Output: one line per file:  name=hexvalue;name=hexvalue;...   */
#include <stdio.h>
#include <stdlib.h>
#include <string.h>
#include <unistd.h>
#include <fcntl.h>
#include <locale.h>
#include <ctype.h>
#include <errno.h>
#include "snoopy.h"
#include "configuration.h"
#include "configfile.h"
#include "init-deinit.h"
extern char verif_cfgpath[4096];
static int hexv(int c) { return c <= '9' ? c - '0' : (c | 32) - 'a' + 10; }
int main(int argc, char **argv) {
    static char line[1 << 20]; static unsigned char buf[1 << 19];
    if (argc < 2) return 2;
    snprintf(verif_cfgpath, 4096, "%s/snoopy.ini", argv[1]);
    /* caller states: ambient errno at the moment of the call, descriptor 0 closed (the next open() returns 0) */
    /* the caller has switched to a locale of its own (LOCPATH points at it) */
    if (getenv("VERIF_CONF_LOCALE")) { if (!setlocale(LC_ALL, getenv("VERIF_CONF_LOCALE"))) { fprintf(stderr, "setlocale failed\n"); return 4; } if (toupper('i') == 'I') { fprintf(stderr, "locale has no Turkish case rules\n"); return 4; } }
    int amb = getenv("VERIF_CONF_ERRNO") ? atoi(getenv("VERIF_CONF_ERRNO")) : 0;
    FILE *in = stdin;
    if (getenv("VERIF_CONF_CLOSE0")) { in = fdopen(dup(0), "r"); close(0); }
    while (fgets(line, sizeof line, in)) {
        size_t L = strlen(line); while (L && (line[L - 1] == '\n')) line[--L] = 0;
        if (!strcmp(line, "-")) { unlink(verif_cfgpath); }
        else {
            size_t n = L / 2; for (size_t i = 0; i < n; i++) buf[i] = (unsigned char)(hexv(line[2 * i]) * 16 + hexv(line[2 * i + 1]));
            int fd = open(verif_cfgpath, O_WRONLY | O_CREAT | O_TRUNC, 0644); if (write(fd, buf, n) != (ssize_t)n) return 3; close(fd);
        }
        errno = amb;
        snoopy_init();
        snoopy_configfile_option_t *reg = snoopy_configfile_optionRegistry_getAll();
        for (int i = 0; 0 != strcmp(reg[i].name, ""); i++) {
            char *v = snoopy_configfile_optionRegistry_getOptionValueAsString(reg[i].name);
            printf("%s=", reg[i].name);
            for (unsigned char *p = (unsigned char *)v; *p; p++) printf("%02x", *p);
            printf(";"); free(v);
        }
        printf("\n"); fflush(stdout);
        snoopy_cleanup();
    }
    return 0;
}
