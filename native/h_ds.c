/* h_ds: calls every data source through the registry with EXACTLY-sized heap buffers (ASan checks
 * byte-precisely), for every size of a range, in a process state that makes natural outputs long.
 * Script (stdin):  setup <nenv> <cwd_depth> <argv_total>   |  ds <name> <arghex|-> <from> <to> | dsl <name> <arghex|-> <size> [<size>...]
 *                  filter <name> <arghex|->
 * Output: one line per command. */
#include <stdio.h>
#include <stdlib.h>
#include <string.h>
#include <unistd.h>
#include <sys/stat.h>
#include <sys/mount.h>
#include <sys/ioctl.h>
#include <sched.h>
#include <fcntl.h>
#include "snoopy.h"
#include "init-deinit.h"
#include "inputdatastorage.h"
#include "datasourceregistry.h"
#include "filterregistry.h"
extern char verif_cfgpath[4096];
static int hexv(int c) { return c <= '9' ? c - '0' : (c | 32) - 'a' + 10; }
static char *unhex(const char *h) { if (!strcmp(h, "-")) return strdup(""); size_t n = strlen(h) / 2; char *s = malloc(n + 1); for (size_t i = 0; i < n; i++) s[i] = (char)(hexv(h[2 * i]) * 16 + hexv(h[2 * i + 1])); s[n] = 0; return s; }
static char **g_argv;
static int one(const char *name, const char *arg, size_t size, long *Lout) {
    char *buf = malloc(size);
    memset(buf, 0x5a, size);                          /* nothing in the buffer is a NUL beforehand: the terminator must be the data source's own (also when it fails or has nothing to say) */
    int r = snoopy_datasourceregistry_callByName(name, buf, size, arg);
    int term = memchr(buf, 0, size) != NULL;
    *Lout = term ? (long)strlen(buf) : -1;
    free(buf);
    (void)r;
    return term;
}
int main(int argc, char **argv) {
    static char line[1 << 16];
    (void)argc; (void)argv;
    strcpy(verif_cfgpath, "/nonexistent/verif/snoopy.ini");
    FILE *script = fdopen(dup(0), "r");      /* commands may close or replace descriptor 0 (failstate, ttylong): the script has its own */
    if (!script) return 3;
    while (fgets(line, sizeof line, script)) {
        size_t n = strlen(line); while (n && line[n - 1] == '\n') line[--n] = 0;
        char *tok[4100]; int nt = 0; char *sv = NULL; for (char *t = strtok_r(line, " ", &sv); t && nt < 4100; t = strtok_r(NULL, " ", &sv)) tok[nt++] = t;
        if (!nt) continue;
        if (!strcmp(tok[0], "setup")) {
            int nenv = atoi(tok[1]), depth = atoi(tok[2]), at = atoi(tok[3]);
            for (int i = 0; i < nenv; i++) { char k[32], v[64]; snprintf(k, sizeof k, "VERIF_E%03d", i); memset(v, 'e', 40 + i % 7); v[40 + i % 7] = 0; setenv(k, v, 1); }
            for (int i = 0; i < depth; i++) { char d[64]; memset(d, 'd', 50); d[50] = 0; mkdir(d, 0755); if (chdir(d)) { perror("chdir"); return 3; } }
            int na = at / 10 + 1; g_argv = calloc(na + 1, sizeof *g_argv); for (int i = 0; i < na; i++) g_argv[i] = strdup("argument9"); g_argv[na] = NULL;
            snoopy_init();
            snoopy_inputdatastorage_store_filename("/some/where/a-program-file-name");
            snoopy_inputdatastorage_store_argv(g_argv);
            { static char *envp[] = { "A=1", NULL }; snoopy_inputdatastorage_store_envp(envp); }
            printf("setup ok\n");
        } else if (!strcmp(tok[0], "ds") || !strcmp(tok[0], "dsl")) {
            char *arg = unhex(tok[2]); long L = -2, Lmax = -2; long cnt = 0; int ok = 1; size_t badsize = 0;
            if (!strcmp(tok[0], "ds")) { for (size_t s = (size_t)atol(tok[3]); s <= (size_t)atol(tok[4]); s++) { cnt++; if (!one(tok[1], arg, s, &L)) { ok = 0; badsize = s; break; } if (L > Lmax) Lmax = L; } }
            else { for (int i = 3; i < nt; i++) { cnt++; if (!one(tok[1], arg, (size_t)atol(tok[i]), &L)) { ok = 0; badsize = (size_t)atol(tok[i]); break; } if (L > Lmax) Lmax = L; } }
            printf("%s %s %s sizes=%ld maxlen=%ld terminated=%d badsize=%zu\n", tok[0], tok[1], tok[2], cnt, Lmax, ok, badsize);
            free(arg);
        } else if (!strcmp(tok[0], "ttylong")) {
            /* stdin becomes a terminal whose device path is longer than the smallest result buffers (300 bytes and more): a pty of a private devpts
               instance mounted deep below the work directory (private mount namespace) */
            char d[4096]; if (!getcwd(d, sizeof d - 400)) return 3; size_t l = strlen(d);
            while (l < 330) { strcat(d, "/devpts-instance-mounted-at-a-long-path-0123456789"); mkdir(d, 0755); l = strlen(d); }
            if (unshare(CLONE_NEWNS) || mount("none", "/", NULL, MS_REC | MS_PRIVATE, NULL) || mount("devpts", d, "devpts", 0, "newinstance,ptmxmode=0666,mode=0620")) { perror("private devpts"); return 3; }
            char pm[4200], sp[4300]; snprintf(pm, sizeof pm, "%s/ptmx", d); int m = open(pm, O_RDWR | O_NOCTTY); if (m < 0) { perror(pm); return 3; }
            int unlock = 0, num = -1; ioctl(m, TIOCSPTLCK, &unlock); ioctl(m, TIOCGPTN, &num); snprintf(sp, sizeof sp, "%s/%d", d, num);
            int sl = open(sp, O_RDWR | O_NOCTTY); if (sl < 0) { perror(sp); return 3; } dup2(sl, 0); close(sl);
            char tn[4400]; printf("ttylong ok len=%zu ttyname_r=%d\n", strlen(sp), ttyname_r(0, tn, sizeof tn));
        } else if (!strcmp(tok[0], "failstate")) {
            /* a process state in which data sources FAIL or have nothing to say: working directory removed, no stdin, empty environment */
            char d[64]; snprintf(d, sizeof d, "gone-%d", (int)getpid()); mkdir(d, 0755); if (chdir(d) || rmdir(d) ? 0 : 1) {} { char up[80]; snprintf(up, sizeof up, "../%s", d); rmdir(up); }
            close(0); clearenv(); printf("failstate ok\n");
        } else if (!strcmp(tok[0], "filter")) {
            char *arg = unhex(tok[2]); int r = snoopy_filterregistry_callByName(tok[1], arg); printf("filter %s %s ret=%d\n", tok[1], tok[2], r); free(arg);
        }
        fflush(stdout);
    }
    printf("done\n");
    return 0;
}
