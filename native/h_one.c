#ifndef _GNU_SOURCE
#define _GNU_SOURCE
#endif
/* h_one: one (or more) wrapped execve calls between VERIF markers, for the ptrace executor.
 * usage: h_one <cfgpath> <resultfile> [uid] [ncalls] [devlogpath|-] [message length -> env M] [fill char]
 * The executable contains snoopy's objects (production wrapper); librec.so is the real-exec seam. */
#include <errno.h>
#include <termios.h>
#include <signal.h>
#include <sys/resource.h>
#include <fcntl.h>
#include <stdio.h>
#include <stdlib.h>
#include <string.h>
#include <stddef.h>
#include <unistd.h>
#include <grp.h>
#include <sys/socket.h>
#include <sys/syscall.h>
#include <sys/un.h>
#include <dirent.h>
#include <stdint.h>
extern char verif_cfgpath[4096];
#ifdef VERIF_HEAPTRACK
#include <stdio.h>
/* Heap accounting of SNOOPY'S OWN allocations: the link uses -Wl,--wrap=malloc,... so only calls made from the objects of
 * this executable (snoopy's sources and the harness) are seen; libc-internal allocations (NSS, stdio, locale caches) are not. */
extern void *__real_malloc(size_t), *__real_calloc(size_t, size_t), *__real_realloc(void *, size_t);
extern void __real_free(void *);
extern char *__real_strdup(const char *), *__real_strndup(const char *, size_t);
extern ssize_t __real_getline(char **, size_t *, FILE *);
#define HT_N 65536
static void *ht_ptr[HT_N]; static size_t ht_sz[HT_N];
static volatile int ht_on = 0; static long ht_live = 0, ht_bytes = 0, ht_allocs = 0;
static void ht_add(void *p, size_t n) {
    if (!ht_on || !p) return;
    size_t h = ((uintptr_t)p >> 4) % HT_N;
    for (size_t i = 0; i < HT_N; i++) { size_t k = (h + i) % HT_N; if (!ht_ptr[k] || ht_ptr[k] == (void *)1) { ht_ptr[k] = p; ht_sz[k] = n; ht_live++; ht_bytes += n; ht_allocs++; return; } }
}
static void ht_del(void *p) {
    if (!p) return;
    size_t h = ((uintptr_t)p >> 4) % HT_N;
    for (size_t i = 0; i < HT_N; i++) { size_t k = (h + i) % HT_N; if (!ht_ptr[k]) return; if (ht_ptr[k] == p) { ht_ptr[k] = (void *)1; ht_live--; ht_bytes -= ht_sz[k]; return; } }
}
void *__wrap_malloc(size_t n) { void *p = __real_malloc(n); ht_add(p, n); return p; }
void *__wrap_calloc(size_t a, size_t b) { void *p = __real_calloc(a, b); ht_add(p, a * b); return p; }
void *__wrap_realloc(void *q, size_t n) { ht_del(q); void *p = __real_realloc(q, n); ht_add(p, n); return p; }
void __wrap_free(void *p) { ht_del(p); __real_free(p); }
char *__wrap_strdup(const char *s) { char *p = __real_strdup(s); ht_add(p, p ? strlen(p) + 1 : 0); return p; }
char *__wrap_strndup(const char *s, size_t n) { char *p = __real_strndup(s, n); ht_add(p, p ? strlen(p) + 1 : 0); return p; }
ssize_t __wrap_getline(char **l, size_t *n, FILE *f) { void *old = *l; ssize_t r = __real_getline(l, n, f); if (*l != old) { ht_del(old); ht_add(*l, *n); } return r; }
#endif
static int fd_table(char *out, size_t cap) { /* "n:target;" for every open descriptor; raw getdents-free: uses opendir, so call outside the heap window */
    DIR *d = opendir("/proc/self/fd"); if (!d) return -1; int dfd = dirfd(d); struct dirent *e; size_t o = 0; int n = 0; out[0] = 0;
    while ((e = readdir(d))) { if (e->d_name[0] == '.') continue; int fd = atoi(e->d_name); if (fd == dfd) continue; char l[64], t[256]; snprintf(l, sizeof l, "/proc/self/fd/%d", fd); ssize_t r = readlink(l, t, sizeof t - 1); if (r < 0) r = 0; t[r] = 0; if (!strncmp(t, "socket:", 7)) strcpy(t, "socket"); o += snprintf(out + o, cap - o, "%d:%s;", fd, t); n++; }
    closedir(d); return n;
}
typedef int (*verif_rec_cb_t)(int, const char *, char *const[], char *const[]);
extern verif_rec_cb_t verif_rec_cb;
static int rec_calls;
static int cb(int is_execve, const char *p, char *const a[], char *const e[]) { (void)is_execve; (void)p; (void)a; (void)e; rec_calls++; errno = ENOENT; return -1; }
static const char *devlog;
int connect(int fd, const struct sockaddr *addr, socklen_t len) {
    struct sockaddr_un a;
    if (devlog && addr && addr->sa_family == AF_UNIX) {
        const struct sockaddr_un *u = (const void *)addr; size_t pl = len - offsetof(struct sockaddr_un, sun_path);
        if (pl >= 8 && !strncmp(u->sun_path, "/dev/log", 8) && (pl == 8 || u->sun_path[8] == 0)) {
            memset(&a, 0, sizeof a); a.sun_family = AF_UNIX; strncpy(a.sun_path, devlog, sizeof a.sun_path - 1);
            return (int)syscall(SYS_connect, fd, &a, (socklen_t)sizeof a);
        }
    }
    return (int)syscall(SYS_connect, fd, addr, len);
}
static const char *pending_now(void) { static char b[256]; sigset_t s; sigpending(&s); b[0] = 0; for (int i = 1; i < 65; i++) if (sigismember(&s, i) == 1) { char t[8]; snprintf(t, sizeof t, "%d.", i); strcat(b, t); } return b; }
int main(int argc, char **argv) {
    if (argc < 3) return 2;
    strncpy(verif_cfgpath, argv[1], 4095);
    long uid = argc > 3 ? atol(argv[3]) : 0; int n = argc > 4 ? atoi(argv[4]) : 1; devlog = (argc > 5 && strcmp(argv[5], "-")) ? argv[5] : NULL;
    if (argc > 6) { long ml = atol(argv[6]); char *m = malloc(ml + 1); memset(m, argc > 7 ? argv[7][0] : 'm', ml); m[ml] = 0; setenv("M", m, 1); free(m); }
    verif_rec_cb = cb;
    FILE *resf = fopen(argv[2], "w");   /* the result channel is opened before privileges are dropped */
    /* the caller has these signals blocked and one instance of each pending (e.g. "13,25,22"): logging must neither deliver nor swallow them */
    { const char *pg = getenv("VERIF_PENDING"); if (pg && *pg) { char *d = strdup(pg), *sv = NULL; sigset_t bs; sigemptyset(&bs);
        for (char *t = strtok_r(d, ",", &sv); t; t = strtok_r(NULL, ",", &sv)) sigaddset(&bs, atoi(t));
        sigprocmask(SIG_BLOCK, &bs, NULL); free(d); d = strdup(pg); for (char *t = strtok_r(d, ",", &sv); t; t = strtok_r(NULL, ",", &sv)) kill(getpid(), atoi(t)); free(d); } }
    /* the utmp file the library's own reader looks at (its test hook): lets a run put a FIFO, a leased file ... in that place */
    { const char *up = getenv("VERIF_UTMP_PATH"); if (up && *up) { extern void snoopy_util_utmp_test_setAlternateUtmpFilePath(char const * const); snoopy_util_utmp_test_setAlternateUtmpFilePath(up); } }
    if (getenv("VERIF_STDIN_PTY")) { int m = posix_openpt(O_RDWR | O_NOCTTY); grantpt(m); unlockpt(m); int sl = open(ptsname(m), O_RDWR | O_NOCTTY); dup2(sl, 0); close(sl); }
    /* sink states of the caller's own stdout / stderr: "gone:<fds>" = pipe whose reader has closed, "full:<fds>" = pipe that is
       full and that nobody reads, "nearly:<fds>" = the same with one page of room, "sockgone:<fds>" = stream socket whose peer has closed */
    { const char *st = getenv("VERIF_STD_STATE");
      if (st && *st) {
          const char *fds = strchr(st, ':'); fds = fds ? fds + 1 : "1";
          for (const char *q = fds; *q; q++) {
              int target = *q - '0', p[2];
              if (!strncmp(st, "ttystopped", 10)) { /* a terminal (not the controlling one) whose output is stopped (Ctrl-S / tcflow(TCOOFF)) and whose other side nobody reads */
                  int m = posix_openpt(O_RDWR | O_NOCTTY); grantpt(m); unlockpt(m); int sl = open(ptsname(m), O_RDWR | O_NOCTTY); struct termios t; tcgetattr(sl, &t); cfmakeraw(&t); tcsetattr(sl, TCSANOW, &t);
                  tcflow(sl, TCOOFF); dup2(sl, target); close(sl); continue; }
              if (!strncmp(st, "file4096", 8)) { char z[4096]; memset(z, 'z', sizeof z); int f = open("stdfile", O_WRONLY | O_CREAT | O_TRUNC | O_APPEND, 0644); if (f < 0 || write(f, z, sizeof z) != (ssize_t)sizeof z) return 3; dup2(f, target); close(f); continue; }
              if (!strncmp(st, "sockgone", 8)) { if (socketpair(AF_UNIX, SOCK_STREAM, 0, p)) return 3; close(p[0]); dup2(p[1], target); close(p[1]); continue; }
              if (pipe(p)) return 3;
              if (!strncmp(st, "gone", 4)) close(p[0]);
              else { int fl = fcntl(p[1], F_GETFL); fcntl(p[1], F_SETFL, fl | O_NONBLOCK); char z[4096]; memset(z, 'z', sizeof z);
                     while (write(p[1], z, sizeof z) > 0) {} while (write(p[1], z, 1) > 0) {} fcntl(p[1], F_SETFL, fl);
                     if (!strncmp(st, "nearly", 6)) { if (read(p[0], z, sizeof z) < 0) return 3; } /* one page of room, still nobody reading */ }
              dup2(p[1], target); close(p[1]);
          } } }
    if (uid) { setgroups(0, NULL); if (setresgid(uid, uid, uid) || setresuid(uid, uid, uid)) { perror("setres"); return 3; } }
    char *av[] = { "prog", "arg one", "two", NULL }; char *ev[] = { "A=1", "LOGNAME=someone", NULL };
    int ok = 1, lastret = 0, lasterr = 0; static char fds0[8192], fds1[8192]; long heapd[8] = {0}; int fdleak[8] = {0};
    for (int i = 0; i < n; i++) {
        fd_table(fds0, sizeof fds0);
#ifdef VERIF_HEAPTRACK
        long l0 = ht_live; ht_on = 1;
#endif
        /* the caller's file-size limit (ulimit -f): a log file that has reached it makes every append raise SIGXFSZ unless the writer cares */
        struct rlimit rl0; int have_rl = 0; if (getenv("VERIF_RLIMIT_FSIZE")) { getrlimit(RLIMIT_FSIZE, &rl0); struct rlimit rl = rl0; rl.rlim_cur = (rlim_t)atol(getenv("VERIF_RLIMIT_FSIZE")); setrlimit(RLIMIT_FSIZE, &rl); have_rl = 1; }
        if (write(-1, "VERIF:BEGIN", 11) < 0) {}
        errno = getenv("VERIF_AMBIENT_ERRNO") ? atoi(getenv("VERIF_AMBIENT_ERRNO")) : 0;     /* what the caller's earlier activity left in errno */
        int r = execve("/some/dir/prog", av, ev); int e = errno;
        if (write(-1, "VERIF:END", 9) < 0) {}
        if (have_rl) setrlimit(RLIMIT_FSIZE, &rl0);
#ifdef VERIF_HEAPTRACK
        ht_on = 0; if (i < 8) heapd[i] = ht_live - l0;
#endif
        fd_table(fds1, sizeof fds1); if (i < 8) fdleak[i] = strcmp(fds0, fds1) != 0;
        lastret = r; lasterr = e; if (r != -1 || e != ENOENT) ok = 0;
    }
    FILE *f = resf; if (f) { fprintf(f, "{\"still_pending\":\"%s\",\"rec_calls\":%d,\"ret\":%d,\"errno\":%d,\"ok\":%d,\"heap_delta\":[%ld,%ld,%ld],\"fd_table_changed\":[%d,%d,%d],\"fds_after\":\"%s\"}\n", pending_now(), rec_calls, lastret, lasterr, ok && rec_calls == n, heapd[0], heapd[1], heapd[2], fdleak[0], fdleak[1], fdleak[2], fds1); fclose(f); }
    return 0;
}
