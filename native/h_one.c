/* h_one: one (or more) wrapped execve calls between VERIF markers, for the ptrace executor.
 * usage: h_one <cfgpath> <resultfile> [uid] [ncalls] [devlogpath]
 * The executable contains snoopy's objects (production wrapper); librec.so is the real-exec seam. */
#include <errno.h>
#include <stdio.h>
#include <stdlib.h>
#include <string.h>
#include <stddef.h>
#include <unistd.h>
#include <grp.h>
#include <sys/socket.h>
#include <sys/syscall.h>
#include <sys/un.h>
extern char verif_cfgpath[4096];
typedef int (*verif_rec_cb_t)(int, const char *, char *const[], char *const[]);
extern verif_rec_cb_t verif_rec_cb;
static int rec_calls;
static int cb(int is_execve, const char *p, char *const a[], char *const e[]) { (void)is_execve; (void)p; (void)a; (void)e; rec_calls++; errno = ENOENT; return -1; }
static const char *devlog;
int connect(int fd, const struct sockaddr *addr, socklen_t len) {
    struct sockaddr_un a;
    if (devlog && addr && addr->sa_family == AF_UNIX) {
        const struct sockaddr_un *u = (const void *)addr; size_t pl = len - offsetof(struct sockaddr_un, sun_path);
        if (pl >= 8 && !strncmp(u->sun_path, "/dev/log", 8) && (pl == 8 || u->sun_path[8] == 0)) {
            memset(&a, 0, sizeof a); a.sun_family = AF_UNIX; strncpy(a.sun_path, devlog, sizeof a.sun_path - 1);
            return (int)syscall(SYS_connect, fd, &a, (socklen_t)sizeof a);
        }
    }
    return (int)syscall(SYS_connect, fd, addr, len);
}
int main(int argc, char **argv) {
    if (argc < 3) return 2;
    strncpy(verif_cfgpath, argv[1], 4095);
    long uid = argc > 3 ? atol(argv[3]) : 0; int n = argc > 4 ? atoi(argv[4]) : 1; devlog = argc > 5 ? argv[5] : NULL;
    verif_rec_cb = cb;
    if (uid) { setgroups(0, NULL); if (setresgid(uid, uid, uid) || setresuid(uid, uid, uid)) { perror("setres"); return 3; } }
    char *av[] = { "prog", "arg one", "two", NULL }; char *ev[] = { "A=1", "LOGNAME=someone", NULL };
    int ok = 1, lastret = 0, lasterr = 0;
    for (int i = 0; i < n; i++) {
        if (write(-1, "VERIF:BEGIN", 11) < 0) {}
        errno = 0;
        int r = execve("/some/dir/prog", av, ev); int e = errno;
        if (write(-1, "VERIF:END", 9) < 0) {}
        lastret = r; lasterr = e; if (r != -1 || e != ENOENT) ok = 0;
    }
    FILE *f = fopen(argv[2], "w"); if (f) { fprintf(f, "{\"rec_calls\":%d,\"ret\":%d,\"errno\":%d,\"ok\":%d}\n", rec_calls, lastret, lasterr, ok && rec_calls == n); fclose(f); }
    return 0;
}
