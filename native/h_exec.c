/* h_exec: script-driven in-process driver of snoopy's PRODUCTION execv/execve wrapper.
 *
 * The executable contains all of snoopy's objects (including src/entrypoint/execve-wrapper.o, so
 * `execve` below IS the wrapper) and is linked against librec.so, which is what
 * dlsym(RTLD_NEXT, "execve") finds.  The harness owns every candidate sink at once and snapshots
 * them when the recorder is entered and again after the wrapper returned.
 *
 * Script on stdin, one command per line; results as JSON lines on fd 250.
 */
#include <dlfcn.h>
#include <errno.h>
#include <fcntl.h>
#include <limits.h>
#include <poll.h>
#include <signal.h>
#include <stdarg.h>
#include <stdint.h>
#include <stdio.h>
#include <stdlib.h>
#include <string.h>
#include <sys/personality.h>
#include <sys/prctl.h>
#include <sys/socket.h>
#include <sys/stat.h>
#include <sys/mount.h>
#include <sched.h>
#include <pwd.h>
#include <sys/time.h>
#include <stdio_ext.h>
#include <wchar.h>
#include <locale.h>
#include <pthread.h>
#include <sys/resource.h>
#include <sys/syscall.h>
#include <sys/types.h>
#include <sys/un.h>
#include <sys/wait.h>
#include <termios.h>
#include <unistd.h>
#include <dirent.h>
#include <stddef.h>
#include <sys/ioctl.h>
#include <grp.h>

extern char **environ;
extern char verif_cfgpath[4096];
typedef int (*verif_rec_cb_t)(int, const char *, char *const[], char *const[]);
extern verif_rec_cb_t verif_rec_cb;

#define OUTFD 250
static char W[3000];
static int hexmax = 8192;

/* ------------------------------------------------------------------ heap tracking (plain builds) */
#ifdef VERIF_HEAPTRACK
/* Heap accounting of SNOOPY'S OWN allocations: the link uses -Wl,--wrap=malloc,... so only calls made from the objects of
 * this executable (snoopy's sources and the harness) are seen; libc-internal allocations (NSS, stdio, locale caches) are not. */
extern void *__real_malloc(size_t), *__real_calloc(size_t, size_t), *__real_realloc(void *, size_t);
extern void __real_free(void *);
extern char *__real_strdup(const char *), *__real_strndup(const char *, size_t);
extern ssize_t __real_getline(char **, size_t *, FILE *);
#define HT_N 65536
static void *ht_ptr[HT_N]; static size_t ht_sz[HT_N];
static volatile int ht_on = 0; static long ht_live = 0, ht_bytes = 0, ht_allocs = 0;
static void ht_add(void *p, size_t n) {
    if (!ht_on || !p) return;
    size_t h = ((uintptr_t)p >> 4) % HT_N;
    for (size_t i = 0; i < HT_N; i++) { size_t k = (h + i) % HT_N; if (!ht_ptr[k] || ht_ptr[k] == (void *)1) { ht_ptr[k] = p; ht_sz[k] = n; ht_live++; ht_bytes += n; ht_allocs++; return; } }
}
static void ht_del(void *p) {
    if (!p) return;
    size_t h = ((uintptr_t)p >> 4) % HT_N;
    for (size_t i = 0; i < HT_N; i++) { size_t k = (h + i) % HT_N; if (!ht_ptr[k]) return; if (ht_ptr[k] == p) { ht_ptr[k] = (void *)1; ht_live--; ht_bytes -= ht_sz[k]; return; } }
}
void *__wrap_malloc(size_t n) { void *p = __real_malloc(n); ht_add(p, n); return p; }
void *__wrap_calloc(size_t a, size_t b) { void *p = __real_calloc(a, b); ht_add(p, a * b); return p; }
void *__wrap_realloc(void *q, size_t n) { ht_del(q); void *p = __real_realloc(q, n); ht_add(p, n); return p; }
void __wrap_free(void *p) { ht_del(p); __real_free(p); }
char *__wrap_strdup(const char *s) { char *p = __real_strdup(s); ht_add(p, p ? strlen(p) + 1 : 0); return p; }
char *__wrap_strndup(const char *s, size_t n) { char *p = __real_strndup(s, n); ht_add(p, p ? strlen(p) + 1 : 0); return p; }
ssize_t __wrap_getline(char **l, size_t *n, FILE *f) { void *old = *l; ssize_t r = __real_getline(l, n, f); if (*l != old) { ht_del(old); ht_add(*l, *n); } return r; }
#endif

/* ------------------------------------------------------------------ small utilities */
static void out(const char *fmt, ...) {
    static char buf[1 << 16];
    va_list ap; va_start(ap, fmt); int n = vsnprintf(buf, sizeof buf, fmt, ap); va_end(ap);
    if (n > (int)sizeof buf - 1) n = sizeof buf - 1;
    int off = 0; while (off < n) { ssize_t w = write(OUTFD, buf + off, n - off); if (w <= 0) break; off += w; }
}
static uint64_t fnv(const void *p, size_t n) { const unsigned char *s = p; uint64_t h = 1469598103934665603ULL; for (size_t i = 0; i < n; i++) { h ^= s[i]; h *= 1099511628211ULL; } return h; }
static void out_bytes(const char *key, const unsigned char *p, size_t n) {
    /* {"len":n,"fnv":"..","hex":".."}  hex only when short */
    out("\"%s\":{\"len\":%zu,\"fnv\":\"%016llx\"", key, n, (unsigned long long)fnv(p, n));
    if (n <= (size_t)hexmax) {
        char *h = malloc(2 * n + 1); static const char d[] = "0123456789abcdef";
        for (size_t i = 0; i < n; i++) { h[2 * i] = d[p[i] >> 4]; h[2 * i + 1] = d[p[i] & 15]; } h[2 * n] = 0;
        out(",\"hex\":\""); size_t off = 0; while (off < 2 * n) { size_t c = 2 * n - off; if (c > 60000) c = 60000; char sv = h[off + c]; h[off + c] = 0; out("%s", h + off); h[off + c] = sv; off += c; } out("\"");
        free(h);
    }
    out("}");
}
__attribute__((no_sanitize("address"))) static uint64_t fnv_raw(const void *p, size_t n) { const volatile unsigned char *s = p; uint64_t h = 1469598103934665603ULL; for (size_t i = 0; i < n; i++) { h ^= s[i]; h *= 1099511628211ULL; } return h; }
static int hexv(int c) { return c <= '9' ? c - '0' : (c | 32) - 'a' + 10; }

/* string spec: h<hex> | r<2hex>x<count> | cat of pieces joined by '+' */
static char *mkstr(const char *spec) {
    size_t cap = 64, len = 0; char *s = malloc(cap);
    const char *p = spec;
    while (*p) {
        if (*p == 'h') {
            p++;
            while (*p && *p != '+') { if (len + 2 > cap) s = realloc(s, cap *= 2); s[len++] = (char)(hexv(p[0]) * 16 + hexv(p[1])); p += 2; }
        } else if (*p == 'r') {
            int b = hexv(p[1]) * 16 + hexv(p[2]); p += 3; /* x */ p++;
            long cnt = strtol(p, (char **)&p, 10);
            while (len + cnt + 2 > cap) s = realloc(s, cap *= 2);
            memset(s + len, b, cnt); len += cnt;
        } else { fprintf(stderr, "bad string spec %s\n", spec); exit(3); }
        if (*p == '+') p++;
    }
    s[len] = 0;
    return s;
}
/* vector spec: N | [item,item,...]  item = <count>*<strspec> | <strspec> */
static char **mkvec(const char *spec, long *nout) {
    if (spec[0] == 'N') { *nout = -1; return NULL; }
    size_t cap = 16, n = 0; char **v = malloc(cap * sizeof *v);
    char *dup = strdup(spec + 1); size_t L = strlen(dup); if (L && dup[L - 1] == ']') dup[L - 1] = 0;
    char *save = NULL;
    for (char *tok = strtok_r(dup, ",", &save); tok; tok = strtok_r(NULL, ",", &save)) {
        long rep = 1; char *star = strchr(tok, '*'); char *hat = strchr(tok, '^'); char *shared = NULL;
        if (star) { rep = atol(tok); tok = star + 1; }
        else if (hat) { rep = atol(tok); tok = hat + 1; shared = mkstr(tok); }      /* N^spec: N entries that all point at ONE string */
        for (long i = 0; i < rep; i++) { if (n + 2 > cap) v = realloc(v, (cap *= 2) * sizeof *v); v[n++] = shared ? shared : mkstr(tok); }
    }
    v[n] = NULL; *nout = (long)n; free(dup);
    return v;
}
static uint64_t vec_fnv(char *const v[]) { /* content hash incl. lengths */
    if (!v) return 0x1111;
    uint64_t h = 77; for (long i = 0; v[i]; i++) { h = h * 1000003 ^ fnv(v[i], strlen(v[i]) + 1); } return h;
}
static long vec_len(char *const v[]) { if (!v) return -1; long n = 0; while (v[n]) n++; return n; }
static char **vec_copy(char *const v[]) { if (!v) return NULL; long n = vec_len(v); char **c = malloc((n + 1) * sizeof *c); for (long i = 0; i < n; i++) c[i] = (i > 0 && v[i] == v[i - 1]) ? c[i - 1] : strdup(v[i]); c[n] = NULL; return c; }
static int vec_eq(char *const a[], char *const b[]) { if (!a || !b) return a == b; long i = 0; for (; a[i] && b[i]; i++) { if (i > 0 && a[i] == a[i - 1] && b[i] == b[i - 1]) continue; if (strcmp(a[i], b[i])) return 0; } return a[i] == b[i]; }
static void vec_free(char **v) { if (!v) return; for (long i = 0; v[i]; i++) if (!(v[i + 1] && v[i + 1] == v[i])) free(v[i]); free(v); }   /* (runs of one shared string are freed once) */

/* ------------------------------------------------------------------ sinks */
struct acc { unsigned char *p; size_t n, cap; long recs; };
static void acc_add(struct acc *a, const void *p, size_t n) { if (a->n + n + 1 > a->cap) { a->cap = (a->n + n + 1) * 2; a->p = realloc(a->p, a->cap); } memcpy(a->p + a->n, p, n); a->n += n; }
static int sinks_on = 0, stdout_mode = 0, stderr_mode = 0; /* 1 pipe/sock 2 file */
static char sock_base[200] = "sock", path_stderrf[3100];
static int p_out[2] = {-1, -1}, p_err[2] = {-1, -1}, pty_m = -1, s_sock = -1, s_devlog = -1;
static struct acc a_out, a_err, a_pty, a_sock, a_devlog; /* sockets: records separated as 4-byte len + data */
static char path_log[3100], path_log2[3100], path_sock[3100], path_devlog[3100], path_stdoutf[3100];

static void drain_fd(int fd, struct acc *a) { if (fd < 0) return; static unsigned char b[1 << 16]; for (;;) { ssize_t r = read(fd, b, sizeof b); if (r <= 0) break; acc_add(a, b, r); } }
static void drain_sock(int fd, struct acc *a) {
    if (fd < 0) return; static unsigned char b[1 << 21];
    for (;;) { ssize_t r = recv(fd, b, sizeof b, MSG_DONTWAIT); if (r < 0) break; uint32_t L = (uint32_t)r; acc_add(a, &L, 4); acc_add(a, b, r); a->recs++; }
}
static unsigned char *slurp(const char *p, size_t *n) {
    *n = 0; int fd = open(p, O_RDONLY); if (fd < 0) return NULL; struct stat st; fstat(fd, &st);
    unsigned char *b = malloc(st.st_size + 1); size_t off = 0; for (;;) { ssize_t r = read(fd, b + off, st.st_size - off); if (r <= 0) break; off += r; } close(fd); *n = off; return b;
}
static int bind_dgram(const char *path) {
    int s = socket(AF_UNIX, SOCK_DGRAM | SOCK_CLOEXEC | SOCK_NONBLOCK, 0); struct sockaddr_un a; memset(&a, 0, sizeof a); a.sun_family = AF_UNIX; strncpy(a.sun_path, path, sizeof a.sun_path - 1); unlink(path);
    if (bind(s, (struct sockaddr *)&a, sizeof a) < 0) { perror("bind"); exit(3); }
    int sz = 4 << 20; setsockopt(s, SOL_SOCKET, SO_RCVBUF, &sz, sizeof sz);
    return s;
}
/* /dev/log redirection: snoopy calls connect() through this definition (same executable). */
static int devlog_redirect = 0;
int connect(int fd, const struct sockaddr *addr, socklen_t len) {
    struct sockaddr_un a;
    if (devlog_redirect && addr && addr->sa_family == AF_UNIX) {
        const struct sockaddr_un *u = (const void *)addr; size_t pl = len - offsetof(struct sockaddr_un, sun_path);
        if (pl >= 8 && !strncmp(u->sun_path, "/dev/log", 8) && (pl == 8 || u->sun_path[8] == 0)) {
            memset(&a, 0, sizeof a); a.sun_family = AF_UNIX; strncpy(a.sun_path, path_devlog, sizeof a.sun_path - 1);
            return (int)syscall(SYS_connect, fd, &a, (socklen_t)sizeof a);
        }
    }
    return (int)syscall(SYS_connect, fd, addr, len);
}
static void sinks_setup(const char *mode, const char *emode) {
    snprintf(path_log, sizeof path_log, "%s/log", W); snprintf(path_log2, sizeof path_log2, "%s/log2", W);
    snprintf(path_sock, sizeof path_sock, "%s/%s", W, sock_base); snprintf(path_stderrf, sizeof path_stderrf, "%s/stderr.file", W); unlink(path_stderrf); snprintf(path_devlog, sizeof path_devlog, "%s/devlog", W);
    snprintf(path_stdoutf, sizeof path_stdoutf, "%s/stdout.file", W);
    unlink(path_log); unlink(path_log2); unlink(path_stdoutf);
    s_sock = bind_dgram(path_sock); s_devlog = bind_dgram(path_devlog); devlog_redirect = 1;
    /* controlling pty for /dev/tty, raw so that bytes arrive untranslated */
    setsid();
    pty_m = posix_openpt(O_RDWR | O_NOCTTY | O_CLOEXEC); grantpt(pty_m); unlockpt(pty_m);
    int sl = open(ptsname(pty_m), O_RDWR | O_CLOEXEC); /* becomes ctty (session leader, no ctty yet) */
    ioctl(sl, TIOCSCTTY, 0);
    struct termios t; tcgetattr(sl, &t); cfmakeraw(&t); tcsetattr(sl, TCSANOW, &t);
    fcntl(pty_m, F_SETFL, O_NONBLOCK);
    /* keep the slave open (fd stays) so the pty does not hang up */
    if (!strcmp(mode, "pipe")) { pipe2(p_out, O_CLOEXEC); fcntl(p_out[0], F_SETFL, O_NONBLOCK); fcntl(p_out[1], F_SETPIPE_SZ, 1 << 20); dup2(p_out[1], 1); stdout_mode = 1; }
    else if (!strcmp(mode, "file")) { int f = open(path_stdoutf, O_WRONLY | O_CREAT | O_TRUNC, 0600); dup2(f, 1); close(f); stdout_mode = 2; }
    else if (!strcmp(mode, "sock")) { socketpair(AF_UNIX, SOCK_STREAM | SOCK_CLOEXEC, 0, p_out); fcntl(p_out[0], F_SETFL, O_NONBLOCK); int sz = 4 << 20; setsockopt(p_out[1], SOL_SOCKET, SO_SNDBUF, &sz, sizeof sz); dup2(p_out[1], 1); stdout_mode = 1; }
    if (!strcmp(emode, "pipe")) { pipe2(p_err, O_CLOEXEC); fcntl(p_err[0], F_SETFL, O_NONBLOCK); fcntl(p_err[1], F_SETPIPE_SZ, 1 << 20); dup2(p_err[1], 2); stderr_mode = 1; }
    else if (!strcmp(emode, "file")) { int f = open(path_stderrf, O_WRONLY | O_CREAT | O_TRUNC, 0600); dup2(f, 2); close(f); stderr_mode = 2; }
    else if (!strcmp(emode, "sock")) { socketpair(AF_UNIX, SOCK_STREAM | SOCK_CLOEXEC, 0, p_err); fcntl(p_err[0], F_SETFL, O_NONBLOCK); int sz = 4 << 20; setsockopt(p_err[1], SOL_SOCKET, SO_SNDBUF, &sz, sizeof sz); dup2(p_err[1], 2); stderr_mode = 1; }
    sinks_on = 1;
}
static void sinks_snapshot(const char *key) {
    if (!sinks_on) { out("\"%s\":null", key); return; }
    drain_fd(p_out[0], &a_out); drain_fd(p_err[0], &a_err); drain_fd(pty_m, &a_pty);
    drain_sock(s_sock, &a_sock); drain_sock(s_devlog, &a_devlog);
    size_t n; unsigned char *b;
    out("\"%s\":{", key);
    b = slurp(path_log, &n); out_bytes("log", b ? b : (unsigned char *)"", n); out(",\"log_exists\":%d,", b != NULL); free(b);
    b = slurp(path_log2, &n); out_bytes("log2", b ? b : (unsigned char *)"", n); out(","); free(b);
    if (stdout_mode == 2) { b = slurp(path_stdoutf, &n); out_bytes("stdout", b ? b : (unsigned char *)"", n); free(b); }
    else out_bytes("stdout", a_out.p ? a_out.p : (unsigned char *)"", a_out.n);
    out(",");
    if (stderr_mode == 2) { b = slurp(path_stderrf, &n); out_bytes("stderr", b ? b : (unsigned char *)"", n); free(b); }
    else out_bytes("stderr", a_err.p ? a_err.p : (unsigned char *)"", a_err.n);
    out(","); out_bytes("tty", a_pty.p ? a_pty.p : (unsigned char *)"", a_pty.n);
    out(",\"sock_recs\":%ld,", a_sock.recs); out_bytes("sock", a_sock.p ? a_sock.p : (unsigned char *)"", a_sock.n);
    out(",\"devlog_recs\":%ld,", a_devlog.recs); out_bytes("devlog", a_devlog.p ? a_devlog.p : (unsigned char *)"", a_devlog.n);
    out("}");
}

/* ------------------------------------------------------------------ state digest (E5) */
struct sym { uintptr_t addr; size_t size; char name[120]; };
static struct sym *syms; static int nsyms;
static void load_syms(const char *file) {
    FILE *f = fopen(file, "r"); if (!f) { perror(file); exit(3); }
    syms = calloc(4096, sizeof *syms); unsigned long a, s; char nm[256];
    while (nsyms < 4096 && fscanf(f, "%lx %lx %255s", &a, &s, nm) == 3) { syms[nsyms].addr = a; syms[nsyms].size = s; strncpy(syms[nsyms].name, nm, 119); nsyms++; }
    fclose(f);
}
#ifdef VERIF_HEAPTRACK
static long live0, bytes0;
#endif
static void digest_body(const char *tag) {
    out("{\"digest\":\"%s\"", tag);
    /* fd table */
    out(",\"fds\":["); { DIR *d = opendir("/proc/self/fd"); int dfd = dirfd(d); struct dirent *e; int first = 1; int fds[1024], nf = 0;
        while ((e = readdir(d))) { if (e->d_name[0] == '.') continue; int fd = atoi(e->d_name); if (fd == dfd) continue; if (nf < 1024) fds[nf++] = fd; }
        closedir(d);
        for (int i = 0; i < nf; i++) for (int j = i + 1; j < nf; j++) if (fds[j] < fds[i]) { int t = fds[i]; fds[i] = fds[j]; fds[j] = t; }
        for (int i = 0; i < nf; i++) { char l[64], t[512]; snprintf(l, sizeof l, "/proc/self/fd/%d", fds[i]); ssize_t r = readlink(l, t, sizeof t - 1); if (r < 0) r = 0; t[r] = 0;
            /* strip the work dir prefix and socket inode numbers so digests are comparable */
            char *q = t; if (!strncmp(t, W, strlen(W))) q = t + strlen(W); if (!strncmp(q, "socket:", 7)) q = "socket"; if (!strncmp(q, "pipe:", 5)) q = "pipe"; if (!strncmp(q, "/dev/pts/", 9)) q = "pts";
            /* descriptor flags, status flags of the open file description (O_NONBLOCK, O_APPEND ... are shared with whoever else holds it) and, for the
               caller's descriptors (the harness's own channels are >= 200), the file offset */
            int fl = fcntl(fds[i], F_GETFD); int sfl = fcntl(fds[i], F_GETFL); long long off = fds[i] < 200 ? (long long)lseek(fds[i], 0, SEEK_CUR) : -2;
            out("%s\"%d:%s:%d:%o:%lld\"", first ? "" : ",", fds[i], q, fl, sfl, off); first = 0; }
    } out("]");
    /* environment: pointer identity is process-local; content hash + count */
    { uint64_t h = vec_fnv(environ); out(",\"env\":\"%ld:%016llx:%d\"", vec_len(environ), (unsigned long long)h, environ != NULL); }
    { char c[PATH_MAX + 1]; if (!getcwd(c, sizeof c)) strcpy(c, "?"); out(",\"cwd\":\"%016llx\"", (unsigned long long)fnv(c, strlen(c))); }
    { mode_t m = umask(0); umask(m); out(",\"umask\":%d", (int)m); }
    { sigset_t s; sigprocmask(SIG_SETMASK, NULL, &s); out(",\"sigmask\":\""); for (int i = 1; i < 65; i++) if (sigismember(&s, i) == 1) out("%d.", i); out("\""); }
    { sigset_t s; sigpending(&s); out(",\"sigpending\":\""); for (int i = 1; i < 65; i++) if (sigismember(&s, i) == 1) out("%d.", i); out("\""); }
    { out(",\"sigact\":\""); for (int i = 1; i < 65; i++) { struct sigaction sa; if (sigaction(i, NULL, &sa) == 0 && (sa.sa_handler != SIG_DFL || sa.sa_flags)) out("%d=%lx/%x.", i, (unsigned long)sa.sa_handler, sa.sa_flags); } out("\""); }
    /* state libc / the kernel keep for the process: locale, process name, priority, resource limits, interval timer, alarm */
    { char pn[32] = ""; prctl(PR_GET_NAME, pn, 0, 0, 0); struct itimerval itv; memset(&itv, 0, sizeof itv); getitimer(ITIMER_REAL, &itv);
      int cfd = open("/dev/tty", O_RDONLY | O_NOCTTY | O_CLOEXEC); if (cfd >= 0) close(cfd);
      extern int verif_nonreentrant_calls;
      out(",\"misc\":\"nonreentrant_libc_calls=%d;ctty=%d;locale=%s;name=%s;nice=%d;itimer=%d", verif_nonreentrant_calls, cfd >= 0, setlocale(LC_ALL, NULL), pn, getpriority(PRIO_PROCESS, 0), (itv.it_value.tv_sec || itv.it_value.tv_usec || itv.it_interval.tv_sec) ? 1 : 0);
      static const int rls[] = { RLIMIT_NOFILE, RLIMIT_FSIZE, RLIMIT_STACK, RLIMIT_CORE, RLIMIT_AS, RLIMIT_NPROC, RLIMIT_CPU }; for (unsigned i = 0; i < sizeof rls / sizeof rls[0]; i++) { struct rlimit rl; getrlimit(rls[i], &rl); out(";rl%d=%llu/%llu", rls[i], (unsigned long long)rl.rlim_cur, (unsigned long long)rl.rlim_max); }
      out("\""); }
    /* stdio state of the caller's streams: orientation and buffering mode (settle in the warm-up calls when the library writes to them) */
    out(",\"stdio\":\"%d/%d/%d;%d/%d/%d\"", fwide(stdout, 0), (int)__flbf(stdout) != 0, ferror(stdout) != 0, fwide(stderr, 0), (int)__flbf(stderr) != 0, ferror(stderr) != 0);
    /* text the calling program has written to its streams but not flushed yet: it is the program's (an exec discards it; a failed exec leaves it where it was) */
    out(",\"stdio_pending\":\"%zu;%zu\"", __fpending(stdout), __fpending(stderr));
#ifdef VERIF_HEAPTRACK
    out(",\"heap_live\":%ld,\"heap_bytes\":%ld", ht_live, ht_bytes);
#endif
    out(",\"syms\":{"); for (int i = 0; i < nsyms; i++) out("%s\"%s\":\"%016llx\"", i ? "," : "", syms[i].name, (unsigned long long)fnv_raw((void *)syms[i].addr, syms[i].size)); out("}");
    out("}");
}
static void digest(const char *tag) { digest_body(tag); out("\n"); }

/* ------------------------------------------------------------------ the recorder callback */
static struct {
    int calls; int is_execve; int ret, err;
    const char *path_ptr; char *path_copy; char **argv_ptr, **argv_copy, **envp_ptr, **envp_copy; char **environ_ptr; char **environ_copy;
    int path_same_ptr, path_eq, argv_same_ptr, argv_eq, envp_same_ptr, envp_eq, environ_same_ptr, environ_eq, kind_ok;
} R;
static int pre_errno = 0, last_errno = 0, nr_before = 0;
static int snapshot_at_entry = 1, want_digest = 0, lean = 0;
static size_t lean_log_off = 0, lean_devlog_off = 0, lean_sock_off = 0;
static int extra_pty_master = -1;   /* master of the `ptyslave` terminal: drained with the other sinks (a full pty blocks its writer after a few hundred records) */
static void lean_report(void) {
    if (extra_pty_master >= 0) { char junk[4096]; while (read(extra_pty_master, junk, sizeof junk) > 0) {} }
    size_t n; unsigned char *b = slurp(path_log, &n);
    if (n < lean_log_off) lean_log_off = 0;
    out(","); out_bytes("logdelta", b ? b + lean_log_off : (unsigned char *)"", b ? n - lean_log_off : 0); lean_log_off = n; free(b);
    drain_sock(s_devlog, &a_devlog); drain_sock(s_sock, &a_sock);
    /* the harness is the only reader of these sinks: keep them from filling up (a full pty would block the writer) */
    drain_fd(p_out[0], &a_out); drain_fd(p_err[0], &a_err); drain_fd(pty_m, &a_pty); a_out.n = a_err.n = a_pty.n = 0;
    out(","); out_bytes("devlogdelta", a_devlog.p ? a_devlog.p + lean_devlog_off : (unsigned char *)"", a_devlog.n - lean_devlog_off); lean_devlog_off = a_devlog.n;
    out(","); out_bytes("sockdelta", a_sock.p ? a_sock.p + lean_sock_off : (unsigned char *)"", a_sock.n - lean_sock_off); lean_sock_off = a_sock.n;
}

static volatile int in_vfork_child = 0;
static int rec_cb(int is_execve, const char *path, char *const argv[], char *const envp[]) {
    R.calls++;
    if (in_vfork_child) _exit(0);     /* vcall: the exec "succeeds" - it never returns, and the vfork parent resumes in the memory this child leaves behind */
    if (R.calls == 1) {
        R.kind_ok = (is_execve == R.is_execve);
        R.path_same_ptr = (path == R.path_ptr); R.path_eq = path && !strcmp(path, R.path_copy);
        R.argv_same_ptr = ((char **)argv == R.argv_ptr); R.argv_eq = vec_eq(argv, R.argv_copy);
        if (is_execve) { R.envp_same_ptr = ((char **)envp == R.envp_ptr); R.envp_eq = vec_eq(envp, R.envp_copy); }
        R.environ_same_ptr = (environ == R.environ_ptr); R.environ_eq = vec_eq(environ, R.environ_copy);
        if (snapshot_at_entry && !lean) { out(","); sinks_snapshot("at_entry"); }
#ifdef VERIF_HEAPTRACK
        out(",\"heap_delta_live_at_entry\":%ld", ht_live - live0);
#endif
        if (want_digest) { out(",\"digest_at_entry\":"); digest_body("entry"); }
    }
    errno = R.err;
    return R.ret;
}

static void do_call(char **tok, int ntok) {
    /* call <execv|execve> <path> <argv> <envp> <ret> <errno> */
    if (ntok < 7) { fprintf(stderr, "call: need 6 args\n"); exit(3); }
    memset(&R, 0, sizeof R);
    R.is_execve = !strcmp(tok[1], "execve");
    char *path = mkstr(tok[2]); long na, ne; char **argv = mkvec(tok[3], &na); char **envp = mkvec(tok[4], &ne);
    R.ret = atoi(tok[5]); R.err = atoi(tok[6]);
    R.path_ptr = path; R.path_copy = strdup(path); R.argv_ptr = argv; R.argv_copy = vec_copy(argv); R.envp_ptr = envp; R.envp_copy = vec_copy(envp);
    R.environ_ptr = environ; R.environ_copy = vec_copy(environ);
    { extern int verif_nonreentrant_calls; nr_before = verif_nonreentrant_calls; }
    out("{\"call\":\"%s\",\"pid\":%d,\"path_len\":%zu,\"argc\":%ld,\"envc\":%ld", tok[1], (int)getpid(), strlen(path), na, ne);
    if (sinks_on && !lean) { out(","); sinks_snapshot("before"); }
#ifdef VERIF_HEAPTRACK
    live0 = ht_live; bytes0 = ht_bytes; ht_on = 1;
#endif
    errno = pre_errno >= 0 ? pre_errno : last_errno;      /* the caller's ambient errno; -1 = whatever the previous call left behind (a failed exec leaves its errno) */
    int r, e;
    if (!strcmp(tok[0], "vcall")) {
        /* the call is made by a vfork() child and its exec succeeds: the child shares this process's memory until then */
        int pe = errno; pid_t vp = vfork();
        if (vp == 0) { in_vfork_child = 1; errno = pe; if (R.is_execve) execve(path, argv, envp); else execv(path, argv); _exit(97); }
        in_vfork_child = 0; int vst = 0; while (waitpid(vp, &vst, 0) < 0 && errno == EINTR) {}
        r = WIFEXITED(vst) ? WEXITSTATUS(vst) : 1000 + WTERMSIG(vst); e = pe; errno = pe;
    } else {
        r = R.is_execve ? execve(path, argv, envp) : execv(path, argv);
        e = errno;
    }
    last_errno = e;
#ifdef VERIF_HEAPTRACK
    ht_on = 0;
    out(",\"heap_delta_live\":%ld,\"heap_delta_bytes\":%ld", ht_live - live0, ht_bytes - bytes0);
#endif
    if (sinks_on && !lean) { out(","); sinks_snapshot("after"); }
    if (sinks_on && lean) lean_report();
    int caller_ok = !strcmp(path, R.path_copy) && vec_eq(argv, R.argv_copy) && (!R.is_execve || vec_eq(envp, R.envp_copy)) && environ == R.environ_ptr && vec_eq(environ, R.environ_copy);
    { extern int verif_nonreentrant_calls; out(",\"nonreentrant_libc_calls\":%d", verif_nonreentrant_calls - nr_before); }
    out(",\"rec_calls\":%d,\"ret\":%d,\"errno\":%d,\"want_ret\":%d,\"want_errno\":%d,\"kind_ok\":%d,\"path_same_ptr\":%d,\"path_eq\":%d,\"argv_same_ptr\":%d,\"argv_eq\":%d,\"envp_same_ptr\":%d,\"envp_eq\":%d,\"environ_same_ptr\":%d,\"environ_eq\":%d,\"caller_unchanged\":%d}\n",
        R.calls, r, e, R.ret, R.err, R.kind_ok, R.path_same_ptr, R.path_eq, R.argv_same_ptr, R.argv_eq, R.envp_same_ptr, R.envp_eq, R.environ_same_ptr, R.environ_eq, caller_ok);
    free(path); vec_free(argv); vec_free(envp); free(R.path_copy); vec_free(R.argv_copy); vec_free(R.envp_copy); vec_free(R.environ_copy);
}

static void write_cfg(const char *hex) {
    char p[3100]; snprintf(p, sizeof p, "%s/snoopy.ini", W);
    char *s = mkstr(hex); size_t n = 0; /* mkstr NUL-terminates; length = decoded length (no NULs inside by construction unless h00) */
    /* compute decoded length again to allow NUL bytes */
    { const char *q = hex; n = 0; while (*q) { if (*q == 'h') { q++; while (*q && *q != '+') { n++; q += 2; } } else if (*q == 'r') { q += 4; n += strtol(q, (char **)&q, 10); } if (*q == '+') q++; } }
    rmdir(p); unlink(p);
    int fd = open(p, O_WRONLY | O_CREAT | O_TRUNC | O_CLOEXEC, 0644); size_t off = 0; while (off < n) { ssize_t w = write(fd, s + off, n - off); if (w <= 0) break; off += w; } close(fd);
    free(s); strcpy(verif_cfgpath, p);
}

/* an application's own pthread_atfork() child handler that replaces the forked child's image with execve() (async-signal-safe, so allowed there);
   here the recorder stands in for the real exec and returns, so the script goes on in the child */
static void atfork_child_exec(void) {
    static char *av[] = { "from-atfork-child-handler", NULL };
    static char pth[] = "/nonexistent/atfork-child";
    memset(&R, 0, sizeof R); R.is_execve = 1; R.ret = -1; R.err = ENOENT; R.path_ptr = pth; R.path_copy = strdup(pth); R.argv_ptr = av; R.argv_copy = vec_copy(av); R.envp_ptr = environ; R.envp_copy = vec_copy(environ);
    R.environ_ptr = environ; R.environ_copy = vec_copy(environ);
    int sv_lean = lean, sv_snap = snapshot_at_entry, sv_dig = want_digest; lean = 1; snapshot_at_entry = 0; want_digest = 0;   /* the recorder only counts and compares for this call */
    int before = R.calls; int r = execve(pth, av, environ);
    lean = sv_lean; snapshot_at_entry = sv_snap; want_digest = sv_dig;
    out("{\"atfork_child_call\":1,\"ret\":%d,\"reached_real_exec\":%d}\n", r, R.calls - before);
}
/* A string of n 'A' bytes (n a multiple of 2 MiB, e.g. 2^31) that costs 2 MiB of memory: one memfd chunk mapped over and over at consecutive
   addresses, one anonymous zero page behind it for the terminating NUL.  The kernel would refuse such an exec (E2BIG) - but the record is made first. */
#include <sys/mman.h>
static char *huge_string(size_t n) {
    const size_t chunk = 2u << 20; int fd = (int)syscall(SYS_memfd_create, "huge", 0); if (fd < 0) { perror("memfd_create"); exit(3); }
    if (ftruncate(fd, chunk)) { perror("ftruncate"); exit(3); }
    char *c = mmap(NULL, chunk, PROT_READ | PROT_WRITE, MAP_SHARED, fd, 0); if (c == MAP_FAILED) { perror("mmap"); exit(3); } memset(c, 'A', chunk); munmap(c, chunk);
    char *base = mmap(NULL, n + 4096, PROT_NONE, MAP_PRIVATE | MAP_ANONYMOUS | MAP_NORESERVE, -1, 0); if (base == MAP_FAILED) { perror("mmap reserve"); exit(3); }
    for (size_t off = 0; off < n; off += chunk) if (mmap(base + off, chunk, PROT_READ, MAP_SHARED | MAP_FIXED, fd, 0) == MAP_FAILED) { perror("mmap chunk"); exit(3); }
    if (mmap(base + n, 4096, PROT_READ, MAP_PRIVATE | MAP_ANONYMOUS | MAP_FIXED, -1, 0) == MAP_FAILED) { perror("mmap tail"); exit(3); }
    close(fd); return base;
}
/* hugecall <variant>: an exec whose strings reach or cross 2^31 bytes.  mid: argv = {first, H(2^31), last}; sum: argv = {first, H'(2^31 - 4)} (every string
   below 2^31, the joined text not); path: the path itself is H(2^31); nullargv: path H with a NULL argument vector */
static void do_hugecall(const char *variant) {
    static char *H; if (!H) H = huge_string((size_t)1 << 31);
    char *path = "/bin/prog"; static char *av[4]; char **argv = av;
    if (!strcmp(variant, "mid")) { av[0] = "first"; av[1] = H; av[2] = "last"; av[3] = NULL; }
    else if (!strcmp(variant, "sum")) { av[0] = "first"; av[1] = H + 4; av[2] = NULL; }
    else if (!strcmp(variant, "path")) { path = H; av[0] = "prog"; av[1] = NULL; }
    else if (!strcmp(variant, "nullargv")) { path = H; argv = NULL; }
    else { fprintf(stderr, "hugecall: unknown variant\n"); exit(3); }
    memset(&R, 0, sizeof R); R.is_execve = 1; R.ret = -1; R.err = E2BIG; R.path_ptr = path; R.path_copy = path; R.argv_ptr = argv; R.argv_copy = argv; R.envp_ptr = environ; R.envp_copy = environ;
    R.environ_ptr = environ; R.environ_copy = environ;
    out("{\"call\":\"hugecall-%s\",\"pid\":%d", variant, (int)getpid());
    int sv_snap = snapshot_at_entry, sv_dig = want_digest; snapshot_at_entry = 0; want_digest = 0;
    struct timespec t0, t1; clock_gettime(CLOCK_MONOTONIC, &t0);
    int r = execve(path, argv, environ); int e = errno;
    clock_gettime(CLOCK_MONOTONIC, &t1);
    snapshot_at_entry = sv_snap; want_digest = sv_dig;
    if (sinks_on && lean) lean_report();
    out(",\"rec_calls\":%d,\"ret\":%d,\"errno\":%d,\"want_ret\":-1,\"want_errno\":%d,\"path_same_ptr\":%d,\"argv_same_ptr\":%d,\"seconds\":%.2f}\n", R.calls, r, e, E2BIG, R.path_same_ptr, R.argv_same_ptr,
        (t1.tv_sec - t0.tv_sec) + (t1.tv_nsec - t0.tv_nsec) / 1e9);
}
/* abandon: a wrapped call that is abandoned half way - it blocks inside the library (its output is a FIFO whose reader does not read, see
   fillfifo) and the calling program's SIGALRM handler jumps out of it with siglongjmp(), as a timeout around a slow operation does; the same
   state is left behind by a vfork() child (which shares this memory) that is killed inside the wrapper.  The NEXT call is what is judged. */
#include <setjmp.h>
static sigjmp_buf abandon_env;
static void abandon_on_alarm(int sig) { (void)sig; siglongjmp(abandon_env, 1); }
static void do_abandon(void) {
    static char pth[] = "/bin/abandoned"; static char *av[] = { "abandoned", "call", NULL };
    memset(&R, 0, sizeof R); R.is_execve = 1; R.ret = -1; R.err = ENOENT; R.path_ptr = pth; R.path_copy = pth; R.argv_ptr = av; R.argv_copy = av; R.envp_ptr = environ; R.envp_copy = environ; R.environ_ptr = environ; R.environ_copy = environ;
    struct sigaction sa, old; memset(&sa, 0, sizeof sa); sa.sa_handler = abandon_on_alarm; sigaction(SIGALRM, &sa, &old);
    int sv_snap = snapshot_at_entry, sv_dig = want_digest; snapshot_at_entry = 0; want_digest = 0;
    volatile int returned = 0;
    if (sigsetjmp(abandon_env, 1) == 0) {
        struct itimerval it = { { 0, 0 }, { 0, 200000 } }; setitimer(ITIMER_REAL, &it, NULL);
        execve(pth, av, environ); returned = 1;
        struct itimerval off = { { 0, 0 }, { 0, 0 } }; setitimer(ITIMER_REAL, &off, NULL);
    }
    snapshot_at_entry = sv_snap; want_digest = sv_dig; sigaction(SIGALRM, &old, NULL);
    out("{\"call\":\"abandoned\",\"returned_normally\":%d,\"rec_calls\":%d}\n", returned, R.calls);
}
/* ... or that forks once more there and lets the grandchild exec (a double-fork daemoniser hooked into atfork): the nested fork() runs the
   library's prepare handler while the note of the outer fork is still set */
static void atfork_child_fork_exec(void) {
    static int nested; if (nested) return; nested = 1;      /* the grandchild runs this handler again: once is enough */
    pid_t g = fork();
    if (g == 0) { static char *av[] = { "from-grandchild", NULL }; memset(&R, 0, sizeof R); R.is_execve = 1; R.ret = -1; R.err = ENOENT; int sl = lean, ss = snapshot_at_entry, sd = want_digest; lean = 1; snapshot_at_entry = 0; want_digest = 0;
        R.path_copy = "/nonexistent/grandchild"; R.path_ptr = R.path_copy; R.argv_ptr = av; R.argv_copy = av; R.envp_ptr = environ; R.envp_copy = environ; R.environ_ptr = environ; R.environ_copy = environ;
        execve("/nonexistent/grandchild", av, environ); lean = sl; snapshot_at_entry = ss; want_digest = sd; _exit(R.calls == 1 ? 0 : 9); }
    int st = 0; while (g > 0 && waitpid(g, &st, 0) < 0 && errno == EINTR) {}
    nested = 0;
    out("{\"atfork_child_call\":1,\"ret\":-1,\"reached_real_exec\":%d,\"nested_fork\":1}\n", (g > 0 && WIFEXITED(st) && WEXITSTATUS(st) == 0) ? 1 : 0);
}
/* an application PREPARE handler that spawns a helper with fork() (and waits for it): the library's handlers run nested, once for the helper's fork
   inside the outer one */
static void atfork_prepare_forks_helper(void) {
    static int nested; if (nested) return; nested = 1;
    pid_t g = fork(); if (g == 0) _exit(0);
    int st = 0; while (g > 0 && waitpid(g, &st, 0) < 0 && errno == EINTR) {}
    nested = 0;
}
/* The same application handlers registered BEFORE the library's: the library registers its fork handlers from a constructor, so only an object
   whose constructor runs earlier gets in front (a library listed after it in LD_PRELOAD; here: a constructor with a priority, which the loader
   runs before the unprioritised ones of the same executable).  VS_EARLY_ATFORK = comma list of prefork / exec / fork, registered in that order.
   Child handlers run in registration order (the application's first, the library's clean-up after it), prepare handlers in reverse. */
__attribute__((constructor(101))) static void early_atfork_setup(void) {
    const char *e = getenv("VS_EARLY_ATFORK"); if (!e) return;
    char buf[200]; strncpy(buf, e, sizeof buf - 1); buf[sizeof buf - 1] = 0;
    for (char *sv = NULL, *t = strtok_r(buf, ",", &sv); t; t = strtok_r(NULL, ",", &sv)) {
        if (!strcmp(t, "prefork")) pthread_atfork(atfork_prepare_forks_helper, NULL, NULL);
        else if (!strcmp(t, "exec")) pthread_atfork(NULL, NULL, atfork_child_exec);
        else if (!strcmp(t, "fork")) pthread_atfork(NULL, NULL, atfork_child_fork_exec);
    }
}
static long onthread_kb = 0;
struct thr_call { char **tok; int nt; };
static void *thr_call_main(void *a) { struct thr_call *tc = a; do_call(tc->tok, tc->nt); return NULL; }
/* openlog / syslog / closelog as the C library implements them (glibc misc/syslog.c), without the time stamp: the tag pointer, the option
   bits and the default facility are STATIC state of libc that closelog() does not reset - a syslog() without a preceding openlog() uses what
   an earlier call left.  Records go to the devlog sink as the datagram libc would send.  (Used by the build variant with the syslog output.) */
#include <syslog.h>
#include <stdarg.h>
static const char *sl_tag = NULL; static int sl_stat = 0, sl_facility = LOG_USER;
void openlog(const char *ident, int option, int facility) { if (ident != NULL) sl_tag = ident; sl_stat = option; if (facility != 0 && (facility & ~LOG_FACMASK) == 0) sl_facility = facility; }
void closelog(void) { sl_tag = NULL; }
void syslog(int pri, const char *fmt, ...) {
    static char msg[1 << 21], dg[(1 << 21) + 512]; va_list ap; va_start(ap, fmt); vsnprintf(msg, sizeof msg, fmt, ap); va_end(ap);
    if ((pri & LOG_FACMASK) == 0) pri |= sl_facility;
    int n = snprintf(dg, sizeof dg, "<%d>%s", pri, sl_tag ? sl_tag : "h_exec"); if (sl_stat & LOG_PID) n += snprintf(dg + n, sizeof dg - n, "[%d]", (int)getpid());
    n += snprintf(dg + n, sizeof dg - n, "%s%s", (sl_tag == NULL || *sl_tag || (sl_stat & LOG_PID)) ? ": " : ": ", msg);
    int so = socket(AF_UNIX, SOCK_DGRAM | SOCK_CLOEXEC, 0); struct sockaddr_un a; memset(&a, 0, sizeof a); a.sun_family = AF_UNIX; strncpy(a.sun_path, path_devlog, sizeof a.sun_path - 1);
    if (so >= 0) { if (sendto(so, dg, (size_t)n, MSG_DONTWAIT | MSG_NOSIGNAL, (struct sockaddr *)&a, sizeof a) < 0) {} syscall(SYS_close, so); }
}
static void handler_dummy(int s) { (void)s; }
/* before privileges are dropped: the work directory and what is in it stay usable for the new identity (the harness keeps rewriting snoopy.ini) */
static void open_up_workdir(void) {
    char p[3100]; if (chmod(W, 0777)) {}
    snprintf(p, sizeof p, "%s/snoopy.ini", W); { int fd = open(p, O_WRONLY | O_CREAT | O_CLOEXEC, 0666); if (fd >= 0) close(fd); } if (chmod(p, 0666)) {}
    if (chmod(path_sock, 0666)) {} if (chmod(path_devlog, 0666)) {} if (chmod(path_log, 0666)) {} if (chmod(path_log2, 0666)) {}
}

int main(int argc, char **argv) {
    if (getenv("VERIF_NOASLR") && !getenv("VERIF_NOASLR_DONE")) {
        personality(ADDR_NO_RANDOMIZE); setenv("VERIF_NOASLR_DONE", "1", 1); syscall(SYS_execve, "/proc/self/exe", argv, environ); /* raw: execv() here is the wrapper */
    }
    (void)argc;
    if (getenv("VERIF_HEXMAX")) hexmax = atoi(getenv("VERIF_HEXMAX"));
    if (fcntl(OUTFD, F_GETFD) < 0) dup2(1, OUTFD);
    fcntl(OUTFD, F_SETFD, FD_CLOEXEC);
    verif_rec_cb = rec_cb;
    signal(SIGPIPE, SIG_DFL);
    static char line[1 << 22];
    /* the script is read from a private descriptor: commands may replace fd 0 */
    dup2(0, 251); fcntl(251, F_SETFD, FD_CLOEXEC); FILE *script = fdopen(251, "r");
    { int nul = open("/dev/null", O_RDONLY); dup2(nul, 0); close(nul); }
    while (fgets(line, sizeof line, script)) {
        size_t L = strlen(line); while (L && (line[L - 1] == '\n' || line[L - 1] == '\r')) line[--L] = 0;
        if (!L || line[0] == '#') continue;
        char *tok[16]; memset(tok, 0, sizeof tok); int nt = 0; char *save = NULL; for (char *t = strtok_r(line, " ", &save); t && nt < 16; t = strtok_r(NULL, " ", &save)) tok[nt++] = t;
        if (!strcmp(tok[0], "W")) { strncpy(W, tok[1], sizeof W - 1); snprintf(verif_cfgpath, 4096, "%s/snoopy.ini", W); }
        else if (!strcmp(tok[0], "sinks")) sinks_setup(nt > 1 ? tok[1] : "pipe", nt > 2 ? tok[2] : "pipe");
        else if (!strcmp(tok[0], "resetsinks")) {
            drain_fd(p_out[0], &a_out); drain_fd(p_err[0], &a_err); drain_fd(pty_m, &a_pty); drain_sock(s_sock, &a_sock); drain_sock(s_devlog, &a_devlog);
            a_out.n = a_err.n = a_pty.n = a_sock.n = a_devlog.n = 0; a_sock.recs = a_devlog.recs = 0; lean_log_off = lean_devlog_off = lean_sock_off = 0;
            unlink(path_log); unlink(path_log2);
            if (stdout_mode == 2) { if (ftruncate(1, 0)) {} lseek(1, 0, SEEK_SET); }
            if (stderr_mode == 2) { if (ftruncate(2, 0)) {} lseek(2, 0, SEEK_SET); }
        }
        else if (!strcmp(tok[0], "sockbase")) { strncpy(sock_base, tok[1], sizeof sock_base - 1); }
        else if (!strcmp(tok[0], "poke")) { /* what the exec'ed image would do next: write to its stdout and stderr */ if (write(1, "<O>", 3) < 0) {} if (write(2, "<E>", 3) < 0) {} }
        else if (!strcmp(tok[0], "snap")) { out("{\"snap\":1,"); sinks_snapshot("now"); out("}\n"); }
        else if (!strcmp(tok[0], "cfg")) write_cfg(nt > 1 ? tok[1] : "h");
        else if (!strcmp(tok[0], "cfgnone")) { char p[3100]; snprintf(p, sizeof p, "%s/snoopy.ini", W); rmdir(p); unlink(p); }
        else if (!strcmp(tok[0], "cfgdir")) { char p[3100]; snprintf(p, sizeof p, "%s/snoopy.ini", W); unlink(p); mkdir(p, 0755); }
        else if (!strcmp(tok[0], "cfgmode")) { char p[3100]; snprintf(p, sizeof p, "%s/snoopy.ini", W); chmod(p, strtol(tok[1], NULL, 8)); }
        else if (!strcmp(tok[0], "env")) {
            if (!strcmp(tok[1], "clear")) clearenv();
            else if (!strcmp(tok[1], "null")) environ = NULL;
            else if (!strcmp(tok[1], "set")) { long n; environ = mkvec(tok[2], &n); }
        }
        else if (!strcmp(tok[0], "noentry")) snapshot_at_entry = 0;
        else if (!strcmp(tok[0], "lean")) lean = atoi(tok[1]);
        else if (!strcmp(tok[0], "errno")) pre_errno = atoi(tok[1]);
        else if (!strcmp(tok[0], "setenv")) { char *k = mkstr(tok[1]); char *v = mkstr(tok[2]); setenv(k, v, 1); free(k); free(v); }
        else if (!strcmp(tok[0], "mkdir")) { char p[3100]; snprintf(p, sizeof p, "%s/%s", W, tok[1]); mkdir(p, 0755); }
        else if (!strcmp(tok[0], "lsdir")) { char p[3100]; snprintf(p, sizeof p, "%s/%s", W, tok[1]); DIR *d = opendir(p); struct dirent *e; out("{\"lsdir\":["); int first = 1;
            while (d && (e = readdir(d))) { if (!strcmp(e->d_name, ".") || !strcmp(e->d_name, "..")) continue; char fp[8000]; snprintf(fp, sizeof fp, "%s/%s", p, e->d_name); size_t n; unsigned char *b = slurp(fp, &n);
                out("%s{", first ? "" : ","); out_bytes("name", (unsigned char *)e->d_name, strlen(e->d_name)); out(","); out_bytes("content", b ? b : (unsigned char *)"", n); out("}"); free(b); first = 0; if (tok[2] && !strcmp(tok[2], "rm")) unlink(fp); }
            if (d) closedir(d); out("]}\n"); }
        else if (!strcmp(tok[0], "defformat") || !strcmp(tok[0], "defchain") || !strcmp(tok[0], "defoutput") || !strcmp(tok[0], "defoutarg") || !strcmp(tok[0], "defident")) {
            /* compiled-in settings of the "compiled_in" variant (variables of seam.c) */
            extern char verif_def_format[65536], verif_def_chain[8192], verif_def_output[256], verif_def_output_arg[8192], verif_def_ident[8192];
            char *val = mkstr(nt > 1 ? tok[1] : "h"); char *dst = !strcmp(tok[0], "defformat") ? verif_def_format : !strcmp(tok[0], "defchain") ? verif_def_chain : !strcmp(tok[0], "defoutput") ? verif_def_output : !strcmp(tok[0], "defoutarg") ? verif_def_output_arg : verif_def_ident;
            size_t cap = !strcmp(tok[0], "defformat") ? 65536 : !strcmp(tok[0], "defoutput") ? 256 : 8192; strncpy(dst, val, cap - 1); dst[cap - 1] = 0; free(val); }
        else if (!strcmp(tok[0], "wantdigest")) want_digest = atoi(tok[1]);
        else if (!strcmp(tok[0], "onthread")) onthread_kb = atol(tok[1]);      /* later calls are made by a fresh thread with a stack of that many KiB */
        else if ((!strcmp(tok[0], "call") || !strcmp(tok[0], "vcall")) && onthread_kb > 0) {
            pthread_attr_t at; pthread_attr_init(&at); pthread_attr_setstacksize(&at, (size_t)onthread_kb * 1024); pthread_t th; struct thr_call tc = { tok, nt };
            if (pthread_create(&th, &at, thr_call_main, &tc)) { perror("pthread_create"); return 3; } pthread_join(th, NULL); pthread_attr_destroy(&at); }
        else if (!strcmp(tok[0], "call") || !strcmp(tok[0], "vcall")) do_call(tok, nt);
        else if (!strcmp(tok[0], "syms")) load_syms(tok[1]);
        else if (!strcmp(tok[0], "digest")) digest(nt > 1 ? tok[1] : "");
        else if (!strcmp(tok[0], "umask")) umask(strtol(tok[1], NULL, 8));
        else if (!strcmp(tok[0], "sigmask")) { sigset_t s; sigemptyset(&s); sigaddset(&s, atoi(tok[1])); sigprocmask(SIG_BLOCK, &s, NULL); }
        else if (!strcmp(tok[0], "dropctty")) { /* session leader WITHOUT a controlling terminal (a daemon after setsid): opening a terminal without O_NOCTTY would acquire it */
            void (*oh)(int) = signal(SIGHUP, SIG_IGN); void (*oc)(int) = signal(SIGCONT, SIG_IGN); int t = open("/dev/tty", O_RDWR | O_CLOEXEC); if (t >= 0) { ioctl(t, TIOCNOTTY); close(t); } signal(SIGHUP, oh); signal(SIGCONT, oc); }
        else if (!strcmp(tok[0], "ptyslave")) { /* a fresh pty whose slave path goes into the named environment variable; the master stays open here */
            int m = posix_openpt(O_RDWR | O_NOCTTY | O_CLOEXEC); grantpt(m); unlockpt(m); fcntl(m, F_SETFL, O_NONBLOCK); char *nm = mkstr(tok[1]); setenv(nm, ptsname(m), 1); free(nm); extra_pty_master = m; }
        else if (!strcmp(tok[0], "pwwalk")) { /* the caller is in the middle of its own walks through the user and group databases (descriptors open, positions set) */
            setpwent(); if (getpwent()) {} setgrent(); if (getgrent()) {} }
        else if (!strcmp(tok[0], "bindover")) { /* bindover <content> <path>: a private mount namespace in which a file with that content is bound over <path> */
            static int ns_done = 0; static int nbind = 0; char *content = mkstr(tok[1]); char *dst = mkstr(tok[2]); char src[3200]; snprintf(src, sizeof src, "%s/bound-%d", W, nbind++);
            int bf = open(src, O_WRONLY | O_CREAT | O_TRUNC | O_CLOEXEC, 0644); if (bf >= 0) { if (write(bf, content, strlen(content)) < 0) {} close(bf); }
            if (!ns_done) { if (unshare(CLONE_NEWNS) || mount("none", "/", NULL, MS_REC | MS_PRIVATE, NULL)) perror("unshare"); ns_done = 1; }
            if (mount(src, dst, NULL, MS_BIND, NULL)) perror("bindover"); free(content); free(dst); }
        else if (!strcmp(tok[0], "raise")) { kill(getpid(), atoi(tok[1])); }      /* meant for a blocked signal: it stays pending */
        else if (!strcmp(tok[0], "sighandler")) { struct sigaction sa; memset(&sa, 0, sizeof sa); sa.sa_handler = handler_dummy; sigaction(atoi(tok[1]), &sa, NULL); }
        else if (!strcmp(tok[0], "openfds")) { /* occupy N descriptors (close-on-exec), so that whatever the library opens gets a number above N */
            struct rlimit rl; getrlimit(RLIMIT_NOFILE, &rl); if (rl.rlim_cur < (rlim_t)atol(tok[1]) + 64) { rl.rlim_cur = (rlim_t)atol(tok[1]) + 64; if (rl.rlim_max < rl.rlim_cur) rl.rlim_max = rl.rlim_cur; setrlimit(RLIMIT_NOFILE, &rl); }
            for (long i = 0; i < atol(tok[1]); i++) if (open("/dev/null", O_RDONLY | O_CLOEXEC) < 0) { perror("openfds"); break; } }
        else if (!strcmp(tok[0], "openfd")) { int fd = open("/dev/null", O_RDONLY | (atoi(tok[1]) ? O_CLOEXEC : 0)); (void)fd; }
        else if (!strcmp(tok[0], "chdir")) { char *p = mkstr(tok[1]); if (chdir(p)) perror("chdir"); free(p); }
        else if (!strcmp(tok[0], "setresuid")) { open_up_workdir(); if (setresuid(atol(tok[1]), atol(tok[2]), atol(tok[3]))) perror("setresuid"); }
        else if (!strcmp(tok[0], "setresgid")) { open_up_workdir(); setgroups(0, NULL); if (setresgid(atol(tok[1]), atol(tok[2]), atol(tok[3]))) perror("setresgid"); }
        else if (!strcmp(tok[0], "stdin")) {
            if (!strcmp(tok[1], "null")) { int f = open("/dev/null", O_RDONLY); dup2(f, 0); close(f); }
            else if (!strcmp(tok[1], "closed")) close(0);
            else if (!strcmp(tok[1], "pipe")) { int p[2]; pipe(p); dup2(p[0], 0); close(p[0]); /* keep write end open */ }
            else if (!strcmp(tok[1], "pty")) { int m = posix_openpt(O_RDWR | O_NOCTTY); grantpt(m); unlockpt(m); int s = open(ptsname(m), O_RDWR | O_NOCTTY); dup2(s, 0); close(s); }
        }
        else if (!strcmp(tok[0], "forkname")) { /* become the child of a process with the given kernel name */
            char *nm = mkstr(tok[1]); char old[32] = ""; prctl(PR_GET_NAME, old, 0, 0, 0); prctl(PR_SET_NAME, nm, 0, 0, 0); pid_t c = fork();   /* rename BEFORE forking */
            if (c == 0) prctl(PR_SET_NAME, old, 0, 0, 0);
            if (c > 0) { int st = 0; while (waitpid(c, &st, 0) < 0 && errno == EINTR) {} _exit(WIFEXITED(st) ? WEXITSTATUS(st) : 128 + WTERMSIG(st)); }
            free(nm); }
        else if (!strcmp(tok[0], "stdiopending")) { /* the caller's stdout is fully buffered and holds unflushed text; its stderr is wide-oriented (the program uses fwprintf there) */
            static char sobuf[1 << 16]; if (nt > 1 && atoi(tok[1]) == 2) ; else { setvbuf(stdout, sobuf, _IOFBF, sizeof sobuf); fputs("starting helper... ", stdout); }
            if (nt > 1 && atoi(tok[1]) == 1) fwide(stderr, 1);
            /* 2: both streams carry a sticky error indicator from an earlier failure of the program's own output (a write that hit ENOSPC);
               the descriptors themselves are perfectly healthy now */
            if (nt > 1 && atoi(tok[1]) == 2) { for (int k = 1; k <= 2; k++) { FILE *st = k == 1 ? stdout : stderr; int keep = dup(k), full = open("/dev/full", O_WRONLY); fflush(st); dup2(full, k); close(full);
                    fputs("x", st); fflush(st); dup2(keep, k); close(keep); } } }
        else if (!strcmp(tok[0], "abandon")) do_abandon();
        else if (!strcmp(tok[0], "fillfifo")) { /* a FIFO in the work directory whose reader (this harness) never reads and which is full: a write to it blocks */
            char *nm = mkstr(tok[1]); char fp[3200]; snprintf(fp, sizeof fp, "%s/%s", W, nm); free(nm); unlink(fp);
            if (mkfifo(fp, 0600)) { perror("mkfifo"); return 3; }
            int rfd = open(fp, O_RDONLY | O_NONBLOCK | O_CLOEXEC), wfd = open(fp, O_WRONLY | O_NONBLOCK | O_CLOEXEC); if (rfd < 0 || wfd < 0) { perror("fifo"); return 3; }
            static char fill[4096]; memset(fill, 'f', sizeof fill); while (write(wfd, fill, sizeof fill) > 0) {} while (write(wfd, fill, 1) > 0) {} }
        else if (!strcmp(tok[0], "hugecall")) do_hugecall(nt > 1 ? tok[1] : "mid");
        else if (!strcmp(tok[0], "nonblock")) { /* the caller keeps this descriptor in non-blocking mode (an event-driven program): the mode belongs to the shared open file description */
            int fd = atoi(tok[1]); int fl = fcntl(fd, F_GETFL); if (fl < 0 || fcntl(fd, F_SETFL, fl | O_NONBLOCK)) { perror("nonblock"); return 3; } }
        else if (!strcmp(tok[0], "atforkprefork")) { if (pthread_atfork(atfork_prepare_forks_helper, NULL, NULL)) { perror("pthread_atfork"); return 3; } }
        else if (!strcmp(tok[0], "atforkfork")) { if (pthread_atfork(NULL, NULL, atfork_child_fork_exec)) { perror("pthread_atfork"); return 3; } }
        else if (!strcmp(tok[0], "atforkexec")) { if (pthread_atfork(NULL, NULL, atfork_child_exec)) { perror("pthread_atfork"); return 3; } }
        else if (!strcmp(tok[0], "prname")) { char *p = mkstr(tok[1]); prctl(PR_SET_NAME, p, 0, 0, 0); free(p); }
        else if (!strcmp(tok[0], "echo")) out("{\"echo\":\"%s\"}\n", nt > 1 ? tok[1] : "");
        else { fprintf(stderr, "h_exec: unknown command %s\n", tok[0]); return 3; }
    }
    out("{\"done\":1}\n");
    return 0;
}
