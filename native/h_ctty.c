/* h_ctty: run a command with a controlling terminal.
 * usage: h_ctty fg|bg_tostop -- cmd args...
 *   fg         the command runs in the foreground process group of a fresh pty
 *   bg_tostop  the command runs in a BACKGROUND process group of that pty and the pty has TOSTOP set: a write to the terminal
 *              (e.g. through /dev/tty) raises SIGTTOU in the writer unless the writer blocks or ignores it
 * The master side is drained by this process; the command's stdin/stdout/stderr are left as they are. Exit status: the command's. */
#define _GNU_SOURCE
#include <stdio.h>
#include <stdlib.h>
#include <string.h>
#include <unistd.h>
#include <fcntl.h>
#include <signal.h>
#include <termios.h>
#include <sys/ioctl.h>
#include <sys/wait.h>
#include <poll.h>
int main(int argc, char **argv) {
    if (argc < 4 || strcmp(argv[2], "--")) return 2;
    int bg = !strcmp(argv[1], "bg_tostop");
    pid_t leader = fork();
    if (leader < 0) return 3;
    if (leader == 0) {
        setsid();
        int m = posix_openpt(O_RDWR | O_NOCTTY); grantpt(m); unlockpt(m);
        int s = open(ptsname(m), O_RDWR); if (s < 0) _exit(3);
        ioctl(s, TIOCSCTTY, 0);
        struct termios t; tcgetattr(s, &t); cfmakeraw(&t); if (bg) t.c_lflag |= TOSTOP; tcsetattr(s, TCSANOW, &t);
        signal(SIGTTOU, SIG_IGN);      /* this leader itself never stops */
        pid_t c = fork();
        if (c == 0) {
            signal(SIGTTOU, SIG_DFL);
            if (bg) setpgid(0, 0);     /* own process group, not the terminal's foreground group */
            close(m); close(s);
            execv(argv[3], argv + 3); perror("execv"); _exit(126);
        }
        if (bg) setpgid(c, c);
        fcntl(m, F_SETFL, O_NONBLOCK);
        for (;;) { int st; char b[4096]; while (read(m, b, sizeof b) > 0) {}
            pid_t r = waitpid(c, &st, WNOHANG | WUNTRACED);
            if (r == c) { if (WIFSTOPPED(st)) { kill(-c, SIGKILL); _exit(100 + WSTOPSIG(st)); } _exit(WIFEXITED(st) ? WEXITSTATUS(st) : 128 + WTERMSIG(st)); }
            struct pollfd p = { m, POLLIN, 0 }; poll(&p, 1, 20); }
    }
    int st; waitpid(leader, &st, 0);
    return WIFEXITED(st) ? WEXITSTATUS(st) : 128 + WTERMSIG(st);
}
