#ifndef VSCHED_H
#define VSCHED_H
#include <pthread.h>
#include <sys/types.h>
enum { VS_START, VS_LOCK, VS_UNLOCK, VS_ONCE, VS_FN, VS_END, VS_FORK, VS_MINIT, VS_USER };
void vs_init(int nthreads);
void vs_thread_begin(int t);
void vs_thread_end(int t);
void vs_run(void);
int vs_mutex_lock(pthread_mutex_t *m);
int vs_mutex_unlock(pthread_mutex_t *m);
int vs_mutex_init(pthread_mutex_t *m, const pthread_mutexattr_t *a);
int vs_once(pthread_once_t *c, void (*f)(void));
pid_t vs_fork(void);
void vs_user_point(void *obj);
int vs_mutex_owner(pthread_mutex_t *m);
int vs_steps(void);
int vs_bad_closes(void);
#include <sys/uio.h>
ssize_t vs_write(int fd, const void *b, size_t n);
ssize_t vs_writev(int fd, const struct iovec *iov, int c);
int vs_close(int fd);
extern unsigned long long (*vs_state_cb)(void);
#endif
