/* Recorder: stands in for libc's execv/execve.  Linked as a shared object AFTER the harness
 * executable (which contains snoopy's production wrapper), so dlsym(RTLD_NEXT,"execve") issued by
 * the wrapper resolves here exactly as it would resolve to libc.  All logic lives in the harness
 * callback. */
#include <errno.h>
#include <stddef.h>
typedef int (*verif_rec_cb_t)(int is_execve, const char *path, char *const argv[], char *const envp[]);
verif_rec_cb_t verif_rec_cb = NULL;
int execve(const char *path, char *const argv[], char *const envp[]) {
    if (verif_rec_cb) return verif_rec_cb(1, path, argv, envp);
    errno = ENOSYS; return -1;
}
int execv(const char *path, char *const argv[]) {
    if (verif_rec_cb) return verif_rec_cb(0, path, argv, NULL);
    errno = ENOSYS; return -1;
}
