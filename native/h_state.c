/* h_state: construct a real process state (ids, session, cwd, stdin, environment, host name, ancestor
 * chain), then print (a) what every requested data source returns through the registry and (b) the
 * same facts obtained by a DIFFERENT route (raw system calls, /proc files, own parsing).
 * usage: h_state <spec> where spec is a ';'-separated list key=value:
 *   ids=r,e,s,rg,eg,sg  setsid=0|1  cwd=root|d300|d4000|dhuge|renamed|deleted  stdin=pty|pipe|null|closed
 *   env=empty|three|special|big|huge  sudo=0|1 logname=0|1  host=<name>|-  chain=<name1>/<name2>/...  ptyowner=<uid>
 *   ds=<name[:arg]>,<name[:arg]>...    (hex-encoded list items separated by ',')
 * Output: JSON object on stdout. */
#define _GNU_SOURCE
#include <errno.h>
#include <sys/ioctl.h>
#include <sys/mount.h>
#include <fcntl.h>
#include <grp.h>
#include <pwd.h>
#include <limits.h>
#include <pthread.h>
#include <sched.h>
#include <signal.h>
#include <stdio.h>
#include <stdlib.h>
#include <string.h>
#include <sys/prctl.h>
#include <sys/stat.h>
#include <sys/syscall.h>
#include <sys/time.h>
#include <sys/utsname.h>
#include <sys/wait.h>
#include <time.h>
#include <unistd.h>
#include "snoopy.h"
#include "init-deinit.h"
#include "inputdatastorage.h"
#include "datasourceregistry.h"
extern char **environ;
extern char verif_cfgpath[4096];
static int hexv(int c) { return c <= '9' ? c - '0' : (c | 32) - 'a' + 10; }
static char *unhex(const char *h) { size_t n = strlen(h) / 2; char *s = malloc(n + 1); for (size_t i = 0; i < n; i++) s[i] = (char)(hexv(h[2 * i]) * 16 + hexv(h[2 * i + 1])); s[n] = 0; return s; }
static void jhex(const char *k, const char *v) { printf("\"%s\":\"", k); for (const unsigned char *p = (const unsigned char *)v; *p; p++) printf("%02x", *p); printf("\""); }
static const char *kv(char **kvs, const char *k, const char *def) { size_t L = strlen(k); for (int i = 0; kvs[i]; i++) if (!strncmp(kvs[i], k, L) && kvs[i][L] == '=') return kvs[i] + L + 1; return def; }
static char *slurp(const char *p) { FILE *f = fopen(p, "r"); if (!f) return strdup(""); static char b[1 << 16]; size_t n = fread(b, 1, sizeof b - 1, f); b[n] = 0; fclose(f); return strdup(b); }

static char deep_path[1 << 15];   /* the path as mkdeep() built it: readlink(/proc/self/cwd) cannot report one longer than PATH_MAX */
static void mkdeep(int total) { /* chdir into a directory whose absolute path is about `total` bytes long */
    char c[PATH_MAX + 64]; if (!getcwd(c, sizeof c)) strcpy(c, "/"); long have = (long)strlen(c); strcpy(deep_path, c);
    while (have < total) { char d[128]; int n = total - have - 1; if (n > 100) n = 100; if (n < 1) break; memset(d, 'd', n); d[n] = 0; mkdir(d, 0755); if (chdir(d)) { perror("chdir deep"); exit(3); } have += n + 1; strcat(deep_path, "/"); strcat(deep_path, d); }
}

const char *__asan_default_options(void);
const char *__asan_default_options(void) { return "detect_leaks=0"; }
int main(int argc, char **argv) {
    if (argc < 2) return 2;
    char *spec = strdup(argv[1]); char *kvs[64]; int nk = 0; char *sv = NULL;
    for (char *t = strtok_r(spec, ";", &sv); t && nk < 63; t = strtok_r(NULL, ";", &sv)) kvs[nk++] = t;
    kvs[nk] = NULL;
    strcpy(verif_cfgpath, "/nonexistent/verif/snoopy.ini");
    /* stage 2 of an "exec2" state: this image was exec'ed AFTER the state (ids included) had been built, so the kernel started it in
       secure-execution mode (AT_SECURE) whenever real and effective ids differ - the state itself survived the exec */
    if (!strcmp(argv[0], "h_state-stage2")) goto library;
    /* ---- ancestor chain: become the last process of a chain of renamed processes */
    const char *chain = kv(kvs, "chain", "");
    /* pidns=2: the chain below lives in a NEW PID namespace WITH its own fresh /proc (a container): this process becomes its pid 1, so the
       "root process" - the ancestor whose parent is pid 1 - is a process of the chain, with a name the state chooses */
    if (atoi(kv(kvs, "pidns", "0")) == 2) {
        if (unshare(CLONE_NEWPID | CLONE_NEWNS)) { perror("unshare pid+mnt"); return 3; }
        pid_t p = fork(); if (p > 0) { int st; while (waitpid(p, &st, 0) < 0 && errno == EINTR) {} _exit(WIFEXITED(st) ? WEXITSTATUS(st) : 99); }
        if (mount("none", "/", NULL, MS_REC | MS_PRIVATE, NULL) || mount("proc", "/proc", "proc", 0, NULL)) { perror("fresh /proc"); return 3; }
    }
    if (*chain) {
        char *c = strdup(chain); char *s2 = NULL;
        for (char *nm = strtok_r(c, "/", &s2); nm; nm = strtok_r(NULL, "/", &s2)) {
            { char *n = unhex(nm); prctl(PR_SET_NAME, n, 0, 0, 0); }   /* rename BEFORE forking */
            pid_t p = fork();
            if (p > 0) { int st; while (waitpid(p, &st, 0) < 0 && errno == EINTR) {} _exit(WIFEXITED(st) ? WEXITSTATUS(st) : 99); }
        }
    }
    if (*chain) prctl(PR_SET_NAME, "h_state", 0, 0, 0);
    /* ---- a new PID namespace WITHOUT a fresh /proc (unshare --pid --fork without --mount-proc, nsenter -m, a container with the host's
       /proc bound in): this process is pid 1 of its namespace, its parent has no number there, and the numbers under /proc are those of
       the outer namespace - /proc/<getpid()> is some other process; /proc/self still is this one */
    if (atoi(kv(kvs, "pidns", "0")) == 1) { if (unshare(CLONE_NEWPID)) { perror("unshare pid"); return 3; } pid_t p = fork(); if (p > 0) { int st; while (waitpid(p, &st, 0) < 0 && errno == EINTR) {} _exit(WIFEXITED(st) ? WEXITSTATUS(st) : 99); } prctl(PR_SET_NAME, "h_state", 0, 0, 0); }
    const char *selfname = kv(kvs, "self", ""); if (*selfname) { char *n = unhex(selfname); prctl(PR_SET_NAME, n, 0, 0, 0); }
    /* ---- host name in a private UTS namespace */
    const char *host = kv(kvs, "host", "-");
    if (strcmp(host, "-")) { if (unshare(CLONE_NEWUTS)) { perror("unshare uts"); return 3; } if (sethostname(host, strlen(host))) { perror("sethostname"); return 3; } }
    /* ---- orphan: be re-parented to init / the nearest subreaper (ancestor chain of length one) */
    if (atoi(kv(kvs, "orphan", "0"))) { pid_t p = fork(); if (p > 0) _exit(0); for (int i = 0; i < 2000 && getppid() != 1 && i < 200; i++) usleep(1000); }
    /* ---- own process group (pgid == pid, session unchanged): tells sid from pgid */
    if (atoi(kv(kvs, "newpgrp", "0"))) { pid_t p = fork(); if (p > 0) { int st; waitpid(p, &st, 0); _exit(WIFEXITED(st) ? WEXITSTATUS(st) : 99); } setpgid(0, 0); }
    /* ---- session */
    if (atoi(kv(kvs, "setsid", "0"))) { pid_t p = fork(); if (p > 0) { int st; waitpid(p, &st, 0); _exit(WIFEXITED(st) ? WEXITSTATUS(st) : 99); } setsid(); }
    /* ---- stdin */
    const char *sin = kv(kvs, "stdin", "null"); long ptyowner = atol(kv(kvs, "ptyowner", "0"));
    if (!strcmp(sin, "pty")) { int m = posix_openpt(O_RDWR | O_NOCTTY); grantpt(m); unlockpt(m); const char *sn = ptsname(m); if (chown(sn, ptyowner, 0)) {} int s = open(sn, O_RDWR | O_NOCTTY); dup2(s, 0); close(s); }
    else if (!strcmp(sin, "ptylong")) { /* a pty of a private devpts instance mounted far away from /dev/pts: its device path is about 100 bytes long */
        char d[PATH_MAX], pm[PATH_MAX + 16], sp[PATH_MAX + 32]; snprintf(d, sizeof d, "%s/devpts-instance-mounted-at-a-rather-long-path-0123456789-0123456789", kv(kvs, "work", "/tmp")); mkdir(d, 0755);
        if (unshare(CLONE_NEWNS) || mount("none", "/", NULL, MS_REC | MS_PRIVATE, NULL) || mount("devpts", d, "devpts", 0, "newinstance,ptmxmode=0666,mode=0620")) { perror("private devpts"); return 3; }
        snprintf(pm, sizeof pm, "%s/ptmx", d); int m = open(pm, O_RDWR | O_NOCTTY); if (m < 0) { perror(pm); return 3; } int unlock = 0, num = -1; ioctl(m, TIOCSPTLCK, &unlock); ioctl(m, TIOCGPTN, &num);
        snprintf(sp, sizeof sp, "%s/%d", d, num); if (chown(sp, ptyowner, 0)) {} int sl = open(sp, O_RDWR | O_NOCTTY); if (sl < 0) { perror(sp); return 3; } dup2(sl, 0); close(sl); }
    else if (!strcmp(sin, "pipe")) { int p[2]; if (pipe(p)) return 3; dup2(p[0], 0); close(p[0]); }
    else if (!strcmp(sin, "closed")) close(0);
    else { int f = open("/dev/null", O_RDONLY); dup2(f, 0); close(f); }
    /* ---- cwd */
    const char *cw = kv(kvs, "cwd", "root"); const char *work = kv(kvs, "work", "/tmp");
    if (chdir(work)) { perror("chdir work"); return 3; }
    if (!strcmp(cw, "root")) { if (chdir("/")) {} }
    else if (!strcmp(cw, "d300")) mkdeep(300);
    else if (!strcmp(cw, "d4000")) mkdeep(4000);
    else if (!strcmp(cw, "dhuge")) mkdeep(6000);
    else if (!strcmp(cw, "d4200")) mkdeep(4200);
    else if (!strcmp(cw, "d9000")) mkdeep(9000);
    else if (!strcmp(cw, "renamed")) { mkdir("before", 0755); if (chdir("before")) {} if (rename("../before", "../after")) perror("rename"); }
    else if (!strcmp(cw, "deleted")) { mkdir("gone", 0755); if (chdir("gone")) {} if (rmdir("../gone")) perror("rmdir"); }
    /* ---- environment */
    const char *en = kv(kvs, "env", "three");
    clearenv();
    if (!strcmp(en, "three")) { setenv("A", "1", 1); setenv("HOME", "/h", 1); setenv("X_Y", "z z", 1); }
    else if (!strcmp(en, "special")) { setenv("EQ", "a=b,c=d", 1); setenv("COMMA", ",,", 1); setenv("EMPTY", "", 1); }
    else if (!strcmp(en, "big")) { char *v = malloc(5001); memset(v, 'v', 5000); v[5000] = 0; setenv("BIG", v, 1); setenv("A", "1", 1); }
    else if (!strcmp(en, "malformed")) { static char *ev[] = { "A=first", "NOEQUALSSIGN", "A=second", "=novalue_name", "EMPTY=", "EQ=a=b", "BIG=x", NULL }; environ = ev; }
    else if (!strcmp(en, "huge")) { for (int i = 0; i < 300; i++) { char k[32], v[64]; snprintf(k, sizeof k, "K%03d", i); memset(v, 'h', 30); v[30] = 0; setenv(k, v, 1); } }
    { int su = atoi(kv(kvs, "sudo", "0")), ln = atoi(kv(kvs, "logname", "0")); static char longname[4096];   /* 1 = a short name, N > 1 = a name of N bytes */
      if (su == 1) setenv("SUDO_USER", "sudoer", 1); else if (su > 1 && su < 4096) { memset(longname, 's', su); longname[su] = 0; setenv("SUDO_USER", longname, 1); }
      if (ln == 1) setenv("LOGNAME", "lognm", 1); else if (ln > 1 && ln < 4096) { memset(longname, 'n', ln); longname[ln] = 0; setenv("LOGNAME", longname, 1); } }
    setenv("TZ", kv(kvs, "tz", "UTC"), 1);
    /* LOGNAME / SUDO_USER as the LAST strings of the environment: after an exec ("exec2") they sit right below the top of the initial stack,
       with only the short program path above them - reading a fixed number of bytes from such a value runs off the stack */
    if (atoi(kv(kvs, "lognamelast", "0"))) { for (int k = 0; k < 2; k++) { const char *nm = k ? "LOGNAME" : "SUDO_USER"; const char *cur = getenv(nm); if (cur) { char *cp = strdup(cur); unsetenv(nm); setenv(nm, cp, 1); free(cp); } } }
    { const char *pw = kv(kvs, "pwd", "none"); char c[PATH_MAX + 64], a[PATH_MAX + 128];
      if (strcmp(pw, "none") && getcwd(c, sizeof c)) {
          if (!strcmp(pw, "exact")) setenv("PWD", c, 1);
          else if (!strcmp(pw, "dotalias")) { char *sl = strrchr(c, '/'); if (sl && sl != c) { *sl = 0; snprintf(a, sizeof a, "%s/./%s", c, sl + 1); } else snprintf(a, sizeof a, "/./%s", c + 1); setenv("PWD", a, 1); }
          else if (!strcmp(pw, "symlink")) { snprintf(a, sizeof a, "%s/pwdlink", work); unlink(a); if (symlink(c, a) == 0) setenv("PWD", a, 1); }
          else if (!strcmp(pw, "other")) setenv("PWD", "/usr", 1);
      } }   /* a POSIX TZ string: no zoneinfo files needed */
    /* ---- control-group membership as this process sees it: a private mount namespace with a regular file bound over /proc/<pid>/cgroup
       (the kernel's text cannot be varied otherwise); the "facts" below read the same file back */
    { const char *cgf = kv(kvs, "cgfile", ""); if (*cgf) { char *content = unhex(cgf); char fp[PATH_MAX], pp[64]; snprintf(fp, sizeof fp, "%s/fake-cgroup", work); snprintf(pp, sizeof pp, "/proc/self/cgroup");
        FILE *cf = fopen(fp, "w"); if (!cf) { perror("fake cgroup"); return 3; } fwrite(content, 1, strlen(content), cf); fclose(cf); chmod(fp, 0644);
        if (unshare(CLONE_NEWNS) || mount("none", "/", NULL, MS_REC | MS_PRIVATE, NULL) || mount(fp, pp, NULL, MS_BIND, NULL)) { perror("bind over /proc/pid/cgroup"); return 3; } } }
    /* ---- user and group databases: private mount namespace with files from the given directory bound over /etc/passwd and /etc/group */
    { const char *etc = kv(kvs, "etc", "");
      if (!strcmp(etc, "@absent")) { /* no /etc/passwd, /etc/group (nor anything else in /etc): a minimal container or chroot */
        if (unshare(CLONE_NEWNS) || mount("none", "/", NULL, MS_REC | MS_PRIVATE, NULL) || mount("tmpfs", "/etc", "tmpfs", 0, "mode=0755")) { perror("empty /etc"); return 3; } }
      else if (*etc) { char a[PATH_MAX], b[PATH_MAX]; snprintf(a, sizeof a, "%s/passwd", etc); snprintf(b, sizeof b, "%s/group", etc);
        if (unshare(CLONE_NEWNS) || mount("none", "/", NULL, MS_REC | MS_PRIVATE, NULL) || mount(a, "/etc/passwd", NULL, MS_BIND, NULL) || mount(b, "/etc/group", NULL, MS_BIND, NULL)) { perror("bind over /etc/passwd, /etc/group"); return 3; } } }
    /* ---- ids (last: needs privileges for everything above) */
    long r, e, s, rg, eg, sg;
    if (sscanf(kv(kvs, "ids", "0,0,0,0,0,0"), "%ld,%ld,%ld,%ld,%ld,%ld", &r, &e, &s, &rg, &eg, &sg) == 6) {
        setgroups(0, NULL);
        if (setresgid(rg, eg, sg)) { perror("setresgid"); return 3; }
        if (setresuid(r, e, s)) { perror("setresuid"); return 3; }
    }
    if (atoi(kv(kvs, "exec2", "0"))) { char *nav[] = { "h_state-stage2", argv[1], NULL }; execv("/proc/self/exe", nav); perror("execv self"); return 3; }
library:
    /* ---- the library, initialised as the wrapper does */
    snoopy_init();
    snoopy_inputdatastorage_store_filename("/bin/prog");
    static char *av[] = { "prog", "arg", NULL }; snoopy_inputdatastorage_store_argv(av);
    snoopy_inputdatastorage_store_envp(environ);
    if (atoi(kv(kvs, "forked", "0"))) {
        /* evaluate every data source once HERE (anything cached per process/thread gets filled), then fork: the child is what is measured */
        char *dsl0 = strdup(kv(kvs, "ds", "")); char *s0 = NULL; char *wb = malloc(1 << 16);
        for (char *it = strtok_r(dsl0, ",", &s0); it; it = strtok_r(NULL, ",", &s0)) { char *full = unhex(it); char *arg = strchr(full, ':'); if (arg) *arg++ = 0; else arg = ""; wb[0] = 0; snoopy_datasourceregistry_callByName(full, wb, 1 << 16, arg); }
        fflush(stdout);
        pid_t p = fork(); if (p > 0) { int st; waitpid(p, &st, 0); _exit(WIFEXITED(st) ? WEXITSTATUS(st) : 99); }
    }
    printf("{");
    struct timeval t0, t1; t0.tv_sec = time(NULL) - 0; /* coarse clock: never ahead of what the data sources read */
    /* ---- (a) data sources */
    printf("\"ds\":{");
    char *dsl = strdup(kv(kvs, "ds", "")); char *s3 = NULL; int first = 1; size_t bufsz = 1 << 17; char *buf = malloc(bufsz);
    for (char *it = strtok_r(dsl, ",", &s3); it; it = strtok_r(NULL, ",", &s3)) {
        char *full = unhex(it); char *arg = strchr(full, ':'); if (arg) *arg++ = 0; else arg = "";
        /* production-sized buffer first (default datasource_message_max_length 2047 + NUL), then a large one */
        char *sbuf = malloc(2048); sbuf[0] = 0; errno = ERANGE; /* the caller's ambient errno must not matter */ int rvs = snoopy_datasourceregistry_callByName(full, sbuf, 2048, arg);
        buf[0] = 0; errno = 0; int rv = snoopy_datasourceregistry_callByName(full, buf, bufsz, arg);
        if (!first) printf(","); first = 0;
        char key[600]; snprintf(key, sizeof key, "%s%s%s", full, *arg ? ":" : "", arg);
        printf("\""); for (unsigned char *p = (unsigned char *)key; *p; p++) printf("%02x", *p); printf("\":{\"rv\":%d,\"rvs\":%d,", rv, rvs); jhex("v", buf); printf(","); jhex("vs", sbuf); printf("}"); free(sbuf);
    }
    printf("},");
    gettimeofday(&t1, NULL);
    /* ---- (a2) every data source once more, in REVERSE order, after all the others have run: a source whose value depends on what another
       source did before it (a shared buffer, a modified environment string, a moved file offset, a changed cwd) answers differently now */
    { char *dsl2 = strdup(kv(kvs, "ds", "")); char *items[512]; int ni = 0; char *s4 = NULL; for (char *it = strtok_r(dsl2, ",", &s4); it && ni < 512; it = strtok_r(NULL, ",", &s4)) items[ni++] = it;
      printf("\"again\":{"); int f2 = 1;
      for (int i = ni - 1; i >= 0; i--) { char *full = unhex(items[i]); char *arg = strchr(full, ':'); if (arg) *arg++ = 0; else arg = "";
          buf[0] = 0; errno = 0; snoopy_datasourceregistry_callByName(full, buf, bufsz, arg);
          char key[600]; snprintf(key, sizeof key, "%s%s%s", full, *arg ? ":" : "", arg);
          printf("%s\"", f2 ? "" : ","); f2 = 0; for (unsigned char *p = (unsigned char *)key; *p; p++) printf("%02x", *p); printf("\":"); printf("{"); jhex("v", buf); printf("}"); }
      printf("},"); }
    /* ---- (a3) the caller changes TZ after time conversions have already taken place: the zone in force NOW is what %{datetime} must use */
    { const char *tz2 = kv(kvs, "tz2", ""); if (*tz2) { setenv("TZ", tz2, 1); buf[0] = 0; snoopy_datasourceregistry_callByName("datetime", buf, bufsz, "%z|%s"); printf("\"datetime_z_after_tz_change\":"); printf("{"); jhex("v", buf); printf("},"); setenv("TZ", kv(kvs, "tz", "UTC"), 1); } }
    /* ---- (b) facts by another route */
    unsigned ru, eu, su, rgi, egi, sgi; syscall(SYS_getresuid, &ru, &eu, &su); syscall(SYS_getresgid, &rgi, &egi, &sgi);
    printf("\"f\":{\"ruid\":%u,\"euid\":%u,\"suid\":%u,\"rgid\":%u,\"egid\":%u,\"sgid\":%u,\"pid\":%ld,\"tid_kernel\":%ld,\"tid\":%lu,", ru, eu, su, rgi, egi, sgi, syscall(SYS_getpid), syscall(SYS_gettid), (unsigned long)pthread_self());
    { char *st = slurp("/proc/self/stat"); char *rp = strrchr(st, ')'); long ppid = -1, pgrp = -1, sid = -1; char stc; if (rp) sscanf(rp + 1, " %c %ld %ld %ld", &stc, &ppid, &pgrp, &sid);
      if (atoi(kv(kvs, "pidns", "0")) == 1) { ppid = syscall(SYS_getppid); sid = syscall(SYS_getsid, 0); }   /* the numbers in a foreign /proc are not this namespace's */
      printf("\"ppid\":%ld,\"sid\":%ld,", ppid, sid); }
    { char l[PATH_MAX * 2]; ssize_t n = readlink("/proc/self/cwd", l, sizeof l - 1); if (n < 0) n = 0; l[n] = 0; jhex("cwd_link", l); printf(",\"cwd_link_len\":%zd,", n); jhex("cwd_built", deep_path); printf(","); }
    { char l[512]; ssize_t n = readlink("/proc/self/fd/0", l, sizeof l - 1); if (n < 0) { n = 0; } l[n] = 0; struct stat sb; int fs = fstat(0, &sb); jhex("fd0", l); printf(",\"fd0_isatty\":%d,\"fd0_uid\":%ld,", isatty(0), fs == 0 ? (long)sb.st_uid : -1L); }
    { struct utsname u; uname(&u); jhex("nodename", u.nodename); printf(","); }
    /* what the system's name service (all of it: files, systemd, ...) answers for these ids, asked through the plain getpwuid()/getgrgid() */
    { struct stat sb; unsigned tu = fstat(0, &sb) == 0 ? sb.st_uid : 0; struct passwd *p; struct group *g;
      errno = 0; p = getpwuid(ru); printf("\"ns_ruid\":%d,", p ? 1 : (errno && errno != ENOENT && errno != ESRCH) ? -1 : 0); jhex("ns_ruid_name", p ? p->pw_name : ""); printf(",");
      errno = 0; p = getpwuid(eu); printf("\"ns_euid\":%d,", p ? 1 : (errno && errno != ENOENT && errno != ESRCH) ? -1 : 0); jhex("ns_euid_name", p ? p->pw_name : ""); printf(",");
      errno = 0; p = getpwuid(tu); printf("\"ns_ttyuid\":%d,", p ? 1 : (errno && errno != ENOENT && errno != ESRCH) ? -1 : 0); jhex("ns_ttyuid_name", p ? p->pw_name : ""); printf(",");
      errno = 0; g = getgrgid(rgi); printf("\"ns_rgid\":%d,", g ? 1 : (errno && errno != ENOENT && errno != ESRCH) ? -1 : 0); jhex("ns_rgid_name", g ? g->gr_name : ""); printf(",");
      errno = 0; g = getgrgid(egi); printf("\"ns_egid\":%d,", g ? 1 : (errno && errno != ENOENT && errno != ESRCH) ? -1 : 0); jhex("ns_egid_name", g ? g->gr_name : ""); printf(","); }
    { printf("\"env\":["); for (int i = 0; environ && environ[i]; i++) { printf("%s\"", i ? "," : ""); for (unsigned char *p = (unsigned char *)environ[i]; *p; p++) printf("%02x", *p); printf("\""); } printf("],"); }
    { char lg[256]; int lr = getlogin_r(lg, sizeof lg); printf("\"getlogin_r\":%d,", lr); jhex("getlogin", lr == 0 ? lg : ""); printf(","); }
    { char *cg = slurp("/proc/self/cgroup"); jhex("cgroup", cg); printf(","); }
    { /* root process name: the ancestor whose parent is pid 1 or 0, via /proc/<pid>/stat + /proc/<pid>/comm */
        long p = syscall(SYS_getpid); char comm[64] = "?"; int guard = 0;
        { char sl[64]; ssize_t n = readlink("/proc/self", sl, sizeof sl - 1); if (n > 0) { sl[n] = 0; p = atol(sl); } }   /* this process's number in the procfs instance mounted at /proc */
        while (guard++ < 64) { char path[64]; snprintf(path, sizeof path, "/proc/%ld/stat", p); char *st = slurp(path); char *rp = strrchr(st, ')'); long pp = -1; char c; if (!rp || sscanf(rp + 1, " %c %ld", &c, &pp) != 2) break;
            if (pp == 1 || pp == 0) { snprintf(path, sizeof path, "/proc/%ld/comm", p); char *cm = slurp(path); cm[strcspn(cm, "\n")] = 0; snprintf(comm, sizeof comm, "%s", cm); break; } p = pp; }
        jhex("rpname", comm); printf(","); }
    printf("\"t0\":%ld,\"t1\":%ld}}\n", (long)t0.tv_sec, (long)t1.tv_sec);
    return 0;
}
