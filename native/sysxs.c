/* sysxs - serialising ptrace executor: several tracees, every system call that concerns one file is a scheduling point.
 *   sysxs -o out.json -p <path> -s "0,1,1,0,..." -- cmdA args --- cmdB args [--- cmdC args]
 * Each tracee runs freely until the ENTRY of a call that concerns <path>: open/openat of that path, or
 * write/writev/pwrite64/close/lseek/ftruncate/fsync/fdatasync/newfstatat/fstat on a descriptor opened on it.  It is held there.  The schedule
 * says which tracee executes its held call next (and then runs on to its next held call or its exit).  After the schedule
 * is used up everybody runs to completion in index order.  After every step the file is read and must have grown or
 * stayed equal WITHOUT any change to earlier bytes.  exit code 0; report in out.json. */
#define _GNU_SOURCE
#include <errno.h>
#include <fcntl.h>
#include <signal.h>
#include <stdio.h>
#include <stdlib.h>
#include <string.h>
#include <sys/ptrace.h>
#include <sys/stat.h>
#include <sys/syscall.h>
#include <sys/uio.h>
#include <sys/user.h>
#include <sys/wait.h>
#include <unistd.h>
#define MAXT 4
struct tr { pid_t pid; int in_sys, done, held, fds[16], nfd, pend_open; long cur_nr; int exit_code, term_sig; long held_nr; } T[MAXT];
static int NT; static const char *path;
static void peek_str(pid_t pid, unsigned long addr, char *out, size_t cap) { size_t i = 0; out[0] = 0; while (i + 1 < cap) { errno = 0; long w = ptrace(PTRACE_PEEKDATA, pid, addr + i, 0); if (errno) break; char *c = (char *)&w; for (size_t k = 0; k < sizeof(long) && i + 1 < cap; k++, i++) { out[i] = c[k]; if (!c[k]) return; } } out[i] = 0; }
static int watched(struct tr *t, int fd) { for (int i = 0; i < t->nfd; i++) if (t->fds[i] == fd) return 1; return 0; }
static void unwatch(struct tr *t, int fd) { for (int i = 0; i < t->nfd; i++) if (t->fds[i] == fd) { t->fds[i] = t->fds[--t->nfd]; return; } }
static const char *nm(long nr) { switch (nr) { case SYS_open: return "open"; case SYS_openat: return "openat"; case SYS_write: return "write"; case SYS_writev: return "writev"; case SYS_pwrite64: return "pwrite64"; case SYS_close: return "close"; case SYS_lseek: return "lseek"; case SYS_ftruncate: return "ftruncate"; case SYS_fsync: return "fsync"; case SYS_fdatasync: return "fdatasync"; case SYS_newfstatat: return "newfstatat"; case SYS_fstat: return "fstat"; case SYS_fcntl: return "fcntl"; } return "?"; }
/* run tracee until it is held at an interesting entry, or it is gone */
static void advance(struct tr *t) {
    int sig = 0;
    t->held = 0;
    for (;;) {
        if (ptrace(PTRACE_SYSCALL, t->pid, 0, sig) < 0) { t->done = 1; return; }
        sig = 0; int st;
        if (waitpid(t->pid, &st, 0) < 0) { t->done = 1; return; }
        if (WIFEXITED(st)) { t->done = 1; t->exit_code = WEXITSTATUS(st); return; }
        if (WIFSIGNALED(st)) { t->done = 1; t->term_sig = WTERMSIG(st); return; }
        if (!WIFSTOPPED(st)) continue;
        if (WSTOPSIG(st) != (SIGTRAP | 0x80)) { if (WSTOPSIG(st) != SIGTRAP) sig = WSTOPSIG(st); continue; }
        struct user_regs_struct r; ptrace(PTRACE_GETREGS, t->pid, 0, &r);
        if (!t->in_sys) {
            t->in_sys = 1; t->cur_nr = (long)r.orig_rax; t->pend_open = 0; int hit = 0;
            /* creating a directory ABOVE the watched path concerns it too (a writer that makes a missing log directory) */
            if (t->cur_nr == SYS_mkdir || t->cur_nr == SYS_mkdirat) { char p[4200]; peek_str(t->pid, t->cur_nr == SYS_mkdir ? r.rdi : r.rsi, p, sizeof p); size_t pl = strlen(p); if (pl && !strncmp(path, p, pl) && path[pl] == '/') hit = 1; }
            if (t->cur_nr == SYS_openat || t->cur_nr == SYS_open) { char p[4200]; peek_str(t->pid, t->cur_nr == SYS_open ? r.rdi : r.rsi, p, sizeof p); if (!strcmp(p, path)) { hit = 1; t->pend_open = 1; } }
            else if (t->cur_nr == SYS_write || t->cur_nr == SYS_writev || t->cur_nr == SYS_pwrite64 || t->cur_nr == SYS_close || t->cur_nr == SYS_lseek || t->cur_nr == SYS_ftruncate || t->cur_nr == SYS_fsync || t->cur_nr == SYS_fdatasync || t->cur_nr == SYS_fstat || t->cur_nr == SYS_newfstatat || t->cur_nr == SYS_fcntl) hit = watched(t, (int)r.rdi);
            if (hit) { t->held = 1; t->held_nr = t->cur_nr; return; }
        } else {
            t->in_sys = 0;
            if (t->pend_open && (long)r.rax >= 0 && t->nfd < 16) t->fds[t->nfd++] = (int)r.rax;
            if (t->cur_nr == SYS_close && (long)r.rax == 0) unwatch(t, (int)r.rdi);
        }
    }
}
static unsigned char *snap(size_t *n) { *n = 0; int fd = open(path, O_RDONLY); if (fd < 0) return NULL; struct stat sb; fstat(fd, &sb); unsigned char *b = malloc(sb.st_size + 1); size_t o = 0; for (;;) { ssize_t r = read(fd, b + o, sb.st_size - o); if (r <= 0) break; o += r; } close(fd); *n = o; return b; }
int main(int argc, char **argv) {
    const char *outp = NULL, *sched = ""; int ai = 1;
    for (; ai < argc; ai++) { if (!strcmp(argv[ai], "--")) { ai++; break; } else if (!strcmp(argv[ai], "-o")) outp = argv[++ai]; else if (!strcmp(argv[ai], "-p")) path = argv[++ai]; else if (!strcmp(argv[ai], "-s")) sched = argv[++ai]; }
    if (!outp || !path || ai >= argc) { fprintf(stderr, "usage\n"); return 2; }
    /* split commands at "---" */
    char **cmd[MAXT]; int c0 = ai; NT = 0;
    for (int i = ai; i <= argc; i++) if (i == argc || !strcmp(argv[i], "---")) { if (NT < MAXT) { argv[i] = NULL; cmd[NT++] = argv + c0; } c0 = i + 1; }
    FILE *out = fopen(outp, "w");
    for (int k = 0; k < NT; k++) {
        pid_t p = fork();
        if (p == 0) { ptrace(PTRACE_TRACEME, 0, 0, 0); raise(SIGSTOP); execvp(cmd[k][0], cmd[k]); _exit(127); }
        int st; waitpid(p, &st, 0); ptrace(PTRACE_SETOPTIONS, p, 0, PTRACE_O_TRACESYSGOOD | PTRACE_O_EXITKILL);
        memset(&T[k], 0, sizeof T[k]); T[k].pid = p; T[k].exit_code = -1;
    }
    size_t pn = 0; unsigned char *prev = snap(&pn); int shrink = 0, overwrite = 0, diverged = 0, step = 0;
    fprintf(out, "{\"steps\":[");
    for (int k = 0; k < NT; k++) advance(&T[k]);
    const char *s = sched; int first = 1;
    for (;;) {
        int k = -1;
        if (*s) { k = (int)strtol(s, (char **)&s, 10); if (*s == ',') s++; if (k < 0 || k >= NT || T[k].done) { diverged = 1; break; } }
        else { for (int i = 0; i < NT; i++) if (!T[i].done) { k = i; break; } if (k < 0) break; }
        long nr = T[k].held_nr;
        advance(&T[k]);
        size_t n; unsigned char *cur = snap(&n);
        if (n < pn) shrink++;
        else if (pn && cur && prev && memcmp(cur, prev, pn)) overwrite++;
        fprintf(out, "%s{\"t\":%d,\"call\":\"%s\",\"len\":%zu}", first ? "" : ",", k, nm(nr), n); first = 0; step++;
        free(prev); prev = cur; pn = n;
    }
    fprintf(out, "],\"nsteps\":%d,\"shrunk\":%d,\"earlier_bytes_changed\":%d,\"diverged\":%d,\"exits\":[", step, shrink, overwrite, diverged);
    for (int k = 0; k < NT; k++) { if (!T[k].done) { kill(T[k].pid, SIGKILL); int st; waitpid(T[k].pid, &st, 0); } fprintf(out, "%s[%d,%d]", k ? "," : "", T[k].exit_code, T[k].term_sig); }
    fprintf(out, "]}\n"); fclose(out);
    return 0;
}
