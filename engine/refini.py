"""Reference model of the configuration file: the INI grammar the parser supports (inih as configured by the
project: BOM, ';'/'#' comment lines, inline ' ;' comments, '=' or ':' separator, continuation lines,
1023-byte lines, snoopy's quote stripping) and the documented value semantics of each option
(etc/snoopy.ini.in + property C08).  Deliberately written from the documentation, not from the code.

parse(data, known_outputs) -> (values: dict option -> bytes as `snoopyctl conf` would show them,
                               loose: set of options whose value the statement does not pin down for this file)
"""
import re

WS = b' \t\n\v\f\r'
DEFAULTS = {
    b'error_logging': b'no', b'filter_chain': b'',
    b'message_format': b'[uid:%{uid} sid:%{sid} tty:%{tty} cwd:%{cwd} filename:%{filename}]: %{cmdline}',
    b'output': b'devlog', b'syslog_facility': b'AUTHPRIV', b'syslog_ident': b'snoopy', b'syslog_level': b'INFO',
    b'datasource_message_max_length': b'2047', b'log_message_max_length': b'16383',
}
ORDER = [b'error_logging', b'filter_chain', b'message_format', b'output', b'syslog_facility', b'syslog_ident', b'syslog_level',
         b'datasource_message_max_length', b'log_message_max_length']
FACILITIES = [b'AUTH', b'AUTHPRIV', b'CRON', b'DAEMON', b'FTP', b'KERN', b'LOCAL0', b'LOCAL1', b'LOCAL2', b'LOCAL3', b'LOCAL4', b'LOCAL5',
              b'LOCAL6', b'LOCAL7', b'LPR', b'MAIL', b'NEWS', b'SYSLOG', b'USER', b'UUCP']
LEVELS = [b'EMERG', b'ALERT', b'CRIT', b'ERR', b'WARNING', b'NOTICE', b'INFO', b'DEBUG']
LINE_MAX = 1024


def phys_lines(data):
    """fgets(line, 1024) semantics: at most 1023 bytes per read, a longer line is delivered in pieces. NUL bytes end the C string."""
    out, i = [], 0
    while i < len(data):
        j = data.find(b'\n', i, i + LINE_MAX - 1)
        if j < 0:
            piece = data[i:i + LINE_MAX - 1]
            i += len(piece)
        else:
            piece = data[i:j + 1]
            i = j + 1
        k = piece.find(b'\0')
        if k >= 0:
            piece = piece[:k]
        out.append(piece)
    return out


def cut_comment(s, stops=b''):
    """index of first byte in `stops`, or of an inline comment (';' preceded by whitespace), else len(s)"""
    was_space = False
    for i, c in enumerate(s):
        ch = bytes([c])
        if ch in [bytes([x]) for x in stops]:
            return i
        if was_space and ch == b';':
            return i
        was_space = ch in [bytes([x]) for x in WS]
    return len(s)


def pairs(data):
    """Yield (section, name, value, kind) for every name/value the grammar defines; kind 'cont' marks a continuation line."""
    section, prev = b'', b''
    for n, raw in enumerate(phys_lines(data)):
        line = raw
        if n == 0 and line[:3] == b'\xef\xbb\xbf':
            line = line[3:]
        line = line.rstrip(WS)
        stripped = line.lstrip(WS)
        lead = len(line) - len(stripped)
        # continuation is judged against the start of the physical line (after BOM the start moved)
        if stripped[:1] in (b';', b'#') and stripped:
            continue
        if prev and stripped and lead > 0:
            yield (section, prev, stripped, 'cont')
            continue
        if stripped[:1] == b'[':
            e = cut_comment(stripped[1:], b']')
            if stripped[1 + e:2 + e] == b']':
                section = stripped[1:1 + e][:49]
                prev = b''
            continue
        if not stripped:
            continue
        e = cut_comment(stripped, b'=:')
        if stripped[e:e + 1] in (b'=', b':'):
            name = stripped[:e].rstrip(WS)
            val = stripped[e + 1:]
            val = val[:cut_comment(val)]
            val = val.strip(WS)
            if len(val) >= 1 and val[:1] == b'"' and val[-1:] == b'"':
                val = val[1:-1] if len(val) >= 2 else b''
            elif len(val) >= 1 and val[:1] == b"'" and val[-1:] == b"'":
                val = val[1:-1] if len(val) >= 2 else b''
            prev = name[:49]
            yield (section, name, val, 'pair')


def parse_len(v, lo=255, hi=1048575):
    """(value or None if unparsable, wellformed?)"""
    m = re.match(rb'^([0-9]*)(.*)$', v, re.S)
    digits, rest = m.group(1), m.group(2)
    if not digits or int(digits) == 0:
        return None, bool(re.match(rb'^0+[kKmM]?$', v))
    n = int(digits)
    f = 1
    if rest[:1] in (b'k', b'K'):
        f = 1024
    elif rest[:1] in (b'm', b'M'):
        f = 1024 * 1024
    well = len(rest) == 0 or (len(rest) == 1 and rest in (b'k', b'K', b'm', b'M'))
    return max(lo, min(hi, n * f)), well


def parse(data, known_outputs, defaults=None):
    """defaults: overrides of the built-in defaults for builds configured differently (e.g. --enable-error-logging)"""
    DEFAULTS = dict(globals()['DEFAULTS'])
    DEFAULTS.update(defaults or {})
    vals = dict(DEFAULTS)
    loose = set()
    for section, name, val, kind in pairs(data):
        if section != b'snoopy' or name not in DEFAULTS:
            continue
        if kind == 'cont':
            loose.add(name)          # the statement does not say what a continuation line does to the value
            continue
        if name == b'error_logging':
            c = val[:1]
            if c and c in b'yYtT1':
                vals[name] = b'yes'
            elif c and c in b'nNfF0':
                vals[name] = b'no'
            # anything else: unparsable -> unchanged (default or previous)
        elif name in (b'filter_chain', b'message_format', b'syslog_ident'):
            vals[name] = val
        elif name == b'output':
            oname, sep, arg = val.partition(b':')
            if oname in known_outputs:
                vals[name] = oname + (b':' + arg if arg else b'')
            else:
                vals[name] = DEFAULTS[name]
        elif name in (b'syslog_facility', b'syslog_level'):
            table = FACILITIES if name == b'syslog_facility' else LEVELS
            u = val.upper()
            if u.startswith(b'LOG_'):
                u = u[4:]
            if u in table:
                vals[name] = u
            else:
                # unparsable: built-in default or previous valid value - the statement does not decide
                if vals[name] != DEFAULTS[name]:
                    loose.add(name)
                vals[name] = DEFAULTS[name]
        else:
            n, well = parse_len(val)
            if n is None:
                if vals[name] != DEFAULTS[name]:
                    loose.add(name)
                vals[name] = DEFAULTS[name]
            else:
                vals[name] = b'%d' % n
                if not well:
                    loose.add(name)      # garbage after the number: only "not a crash" is required here
    return vals, loose
