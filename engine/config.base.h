/* config.h.  Generated from config.h.in by configure.  */
/* config.h.in.  Generated from configure.ac by autoheader.  */

/* Define to 1 if you have the <arpa/inet.h> header file. */
#define HAVE_ARPA_INET_H 1

/* Define to 1 if you have the <ctype.h> header file. */
#define HAVE_CTYPE_H 1

/* Define to 1 if you have the declaration of `strerror_r', and to 0 if you
   don't. */
#define HAVE_DECL_STRERROR_R 1

/* Define to 1 if you have the <dlfcn.h> header file. */
#define HAVE_DLFCN_H 1

/* Define to 1 if you have the <errno.h> header file. */
#define HAVE_ERRNO_H 1

/* Define to 1 if you have the <fcntl.h> header file. */
#define HAVE_FCNTL_H 1

/* Define to 1 if you have the <features.h> header file. */
#define HAVE_FEATURES_H 1

/* Define to 1 if you have the `fork' function. */
#define HAVE_FORK 1

/* Define to 1 if you have the `getcwd' function. */
#define HAVE_GETCWD 1

/* Define to 1 if you have the `gethostname' function. */
#define HAVE_GETHOSTNAME 1

/* Define to 1 if you have the `getsid' function. */
#define HAVE_GETSID 1

/* Define to 1 if you have the `gettimeofday' function. */
#define HAVE_GETTIMEOFDAY 1

/* Define to 1 if you have the `getutline_r' function. */
#define HAVE_GETUTLINE_R 1

/* Define to 1 if you have the <grp.h> header file. */
#define HAVE_GRP_H 1

/* Define to 1 if you have the <inttypes.h> header file. */
#define HAVE_INTTYPES_H 1

/* Define to 1 if you have the `dl' library (-ldl). */
#define HAVE_LIBDL 1

/* Define to 1 if you have the `pthread' library (-lpthread). */
#define HAVE_LIBPTHREAD 1

/* Define to 1 if you have the <limits.h> header file. */
#define HAVE_LIMITS_H 1

/* Define to 1 if you have the `localtime_r' function. */
#define HAVE_LOCALTIME_R 1

/* Define to 1 if your system has a GNU libc compatible `malloc' function, and
   to 0 otherwise. */
#define HAVE_MALLOC 1

/* Define to 1 if you have the <pwd.h> header file. */
#define HAVE_PWD_H 1

/* Define to 1 if you have the `socket' function. */
#define HAVE_SOCKET 1

/* Define to 1 if you have the <stddef.h> header file. */
#define HAVE_STDDEF_H 1

/* Define to 1 if you have the <stdint.h> header file. */
#define HAVE_STDINT_H 1

/* Define to 1 if you have the <stdio.h> header file. */
#define HAVE_STDIO_H 1

/* Define to 1 if you have the <stdlib.h> header file. */
#define HAVE_STDLIB_H 1

/* Define to 1 if you have the `strchr' function. */
#define HAVE_STRCHR 1

/* Define to 1 if you have the `strdup' function. */
#define HAVE_STRDUP 1

/* Define to 1 if you have the `strerror' function. */
#define HAVE_STRERROR 1

/* Define if you have `strerror_r'. */
#define HAVE_STRERROR_R 1

/* Define to 1 if you have the <strings.h> header file. */
#define HAVE_STRINGS_H 1

/* Define to 1 if you have the <string.h> header file. */
#define HAVE_STRING_H 1

/* Define to 1 if you have the `strndup' function. */
#define HAVE_STRNDUP 1

/* Define to 1 if you have the `strrchr' function. */
#define HAVE_STRRCHR 1

/* Define to 1 if you have the `strstr' function. */
#define HAVE_STRSTR 1

/* Define to 1 if you have the <syslog.h> header file. */
#define HAVE_SYSLOG_H 1

/* Define to 1 if you have the <sys/socket.h> header file. */
#define HAVE_SYS_SOCKET_H 1

/* Define to 1 if you have the <sys/stat.h> header file. */
#define HAVE_SYS_STAT_H 1

/* Define to 1 if you have the <sys/syscall.h> header file. */
#define HAVE_SYS_SYSCALL_H 1

/* Define to 1 if you have the <sys/time.h> header file. */
#define HAVE_SYS_TIME_H 1

/* Define to 1 if you have the <sys/types.h> header file. */
#define HAVE_SYS_TYPES_H 1

/* Define to 1 if you have the <sys/un.h> header file. */
#define HAVE_SYS_UN_H 1

/* Define to 1 if you have the <time.h> header file. */
#define HAVE_TIME_H 1

/* Define to 1 if you have the <unistd.h> header file. */
#define HAVE_UNISTD_H 1

/* Define to 1 if you have the `utmpname' function. */
#define HAVE_UTMPNAME 1

/* Define to 1 if you have the <utmp.h> header file. */
#define HAVE_UTMP_H 1

/* Define to 1 if you have the `vfork' function. */
#define HAVE_VFORK 1

/* Define to 1 if you have the <vfork.h> header file. */
/* #undef HAVE_VFORK_H */

/* Define to 1 if `fork' works. */
#define HAVE_WORKING_FORK 1

/* Define to 1 if `vfork' works. */
#define HAVE_WORKING_VFORK 1

/* Define to the sub-directory where libtool stores uninstalled libraries. */
#define LT_OBJDIR ".libs/"

/* Name of package */
#define PACKAGE "snoopy"

/* Define to the address where bug reports for this package should be sent. */
#define PACKAGE_BUGREPORT "https://github.com/a2o/snoopy/issues/"

/* Define to the full name of this package. */
#define PACKAGE_NAME "Snoopy Command Logger"

/* Define to the full name and version of this package. */
#define PACKAGE_STRING "Snoopy Command Logger 765378a"

/* Define to the one symbol short name of this package. */
#define PACKAGE_TARNAME "snoopy"

/* Define to the home page for this package. */
#define PACKAGE_URL "https://github.com/a2o/snoopy/"

/* Define to the version of this package. */
#define PACKAGE_VERSION "765378a"

/* Configure command that was used to build Snoopy */
#define SNOOPY_CONFIGURE_COMMAND "./configure 'CFLAGS= -Wno-error'"

/* code coverage */
/* #undef SNOOPY_CONF_CODE_COVERAGE_ENABLED */

/* Is config file parsing enabled? */
#define SNOOPY_CONF_CONFIGFILE_ENABLED 1

/* INI configuration file path to use */
#define SNOOPY_CONF_CONFIGFILE_PATH "/usr/local/etc/snoopy.ini"

/* Is datasource "cgroup" available? */
#define SNOOPY_CONF_DATASOURCE_ENABLED_cgroup 1

/* Is datasource "cmdline" available? */
#define SNOOPY_CONF_DATASOURCE_ENABLED_cmdline 1

/* Is datasource "cwd" available? */
#define SNOOPY_CONF_DATASOURCE_ENABLED_cwd 1

/* Is datasource "datetime" available? */
#define SNOOPY_CONF_DATASOURCE_ENABLED_datetime 1

/* Is datasource "domain" available? */
#define SNOOPY_CONF_DATASOURCE_ENABLED_domain 1

/* Is datasource "egid" available? */
#define SNOOPY_CONF_DATASOURCE_ENABLED_egid 1

/* Is datasource "egroup" available? */
#define SNOOPY_CONF_DATASOURCE_ENABLED_egroup 1

/* Is datasource "env" available? */
#define SNOOPY_CONF_DATASOURCE_ENABLED_env 1

/* Is datasource "env_all" available? */
#define SNOOPY_CONF_DATASOURCE_ENABLED_env_all 1

/* Is datasource "euid" available? */
#define SNOOPY_CONF_DATASOURCE_ENABLED_euid 1

/* Is datasource "eusername" available? */
#define SNOOPY_CONF_DATASOURCE_ENABLED_eusername 1

/* Is datasource "filename" available? */
#define SNOOPY_CONF_DATASOURCE_ENABLED_filename 1

/* Is datasource "gid" available? */
#define SNOOPY_CONF_DATASOURCE_ENABLED_gid 1

/* Is datasource "group" available? */
#define SNOOPY_CONF_DATASOURCE_ENABLED_group 1

/* Is datasource "hostname" available? */
#define SNOOPY_CONF_DATASOURCE_ENABLED_hostname 1

/* Is datasource "ipaddr" available? */
#define SNOOPY_CONF_DATASOURCE_ENABLED_ipaddr 1

/* Is datasource "login" available? */
#define SNOOPY_CONF_DATASOURCE_ENABLED_login 1

/* Is datasource "pid" available? */
#define SNOOPY_CONF_DATASOURCE_ENABLED_pid 1

/* Is datasource "ppid" available? */
#define SNOOPY_CONF_DATASOURCE_ENABLED_ppid 1

/* Is datasource "rpname" available? */
#define SNOOPY_CONF_DATASOURCE_ENABLED_rpname 1

/* Is datasource "sid" available? */
#define SNOOPY_CONF_DATASOURCE_ENABLED_sid 1

/* Is datasource "snoopy_configure_command" available? Forced "Yes". */
#define SNOOPY_CONF_DATASOURCE_ENABLED_snoopy_configure_command 1

/* Is datasource "snoopy_literal" available? */
#define SNOOPY_CONF_DATASOURCE_ENABLED_snoopy_literal 1

/* Is datasource "snoopy_threads" available? */
#define SNOOPY_CONF_DATASOURCE_ENABLED_snoopy_threads 1

/* Is datasource "snoopy_version" available? Forced "Yes". */
#define SNOOPY_CONF_DATASOURCE_ENABLED_snoopy_version 1

/* Is datasource "systemd_unit_name" available? */
#define SNOOPY_CONF_DATASOURCE_ENABLED_systemd_unit_name 1

/* Is datasource "tid" available? */
#define SNOOPY_CONF_DATASOURCE_ENABLED_tid 1

/* Is datasource "tid_kernel" available? */
#define SNOOPY_CONF_DATASOURCE_ENABLED_tid_kernel 1

/* Is datasource "timestamp" available? */
#define SNOOPY_CONF_DATASOURCE_ENABLED_timestamp 1

/* Is datasource "timestamp_ms" available? */
#define SNOOPY_CONF_DATASOURCE_ENABLED_timestamp_ms 1

/* Is datasource "timestamp_us" available? */
#define SNOOPY_CONF_DATASOURCE_ENABLED_timestamp_us 1

/* Is datasource "tty" available? */
#define SNOOPY_CONF_DATASOURCE_ENABLED_tty 1

/* Is datasource "tty_uid" available? */
#define SNOOPY_CONF_DATASOURCE_ENABLED_tty_uid 1

/* Is datasource "tty_username" available? */
#define SNOOPY_CONF_DATASOURCE_ENABLED_tty_username 1

/* Is datasource "uid" available? */
#define SNOOPY_CONF_DATASOURCE_ENABLED_uid 1

/* Is datasource "username" available? */
#define SNOOPY_CONF_DATASOURCE_ENABLED_username 1

/* Enable error logging */
/* #undef SNOOPY_CONF_ERROR_LOGGING_ENABLED */

/* filtering subsystem */
#define SNOOPY_CONF_FILTERING_ENABLED 1

/* Filter chain to use */
#define SNOOPY_CONF_FILTER_CHAIN ""

/* Is filter "exclude_spawns_of" available? */
#define SNOOPY_CONF_FILTER_ENABLED_exclude_spawns_of 1

/* Is filter "exclude_uid" available? */
#define SNOOPY_CONF_FILTER_ENABLED_exclude_uid 1

/* Is filter "only_root" available? */
#define SNOOPY_CONF_FILTER_ENABLED_only_root 1

/* Is filter "only_tty" available? */
#define SNOOPY_CONF_FILTER_ENABLED_only_tty 1

/* Is filter "only_uid" available? */
#define SNOOPY_CONF_FILTER_ENABLED_only_uid 1

/* Target installation directory for .so library */
#define SNOOPY_CONF_LIBDIR "/usr/local/lib"

/* Custom message format to use */
#define SNOOPY_CONF_MESSAGE_FORMAT "[uid:%{uid} sid:%{sid} tty:%{tty} cwd:%{cwd} filename:%{filename}]: %{cmdline}"

/* Default output provider */
/* #undef SNOOPY_CONF_OUTPUT_DEFAULT */

/* Default output arguments */
/* #undef SNOOPY_CONF_OUTPUT_DEFAULT_ARG */

/* Is output "devlog" available? */
#define SNOOPY_CONF_OUTPUT_ENABLED_devlog 1

/* Is output "devnull" available? */
#define SNOOPY_CONF_OUTPUT_ENABLED_devnull 1

/* Is output "devtty" available? */
#define SNOOPY_CONF_OUTPUT_ENABLED_devtty 1

/* Is output "file" available? Forced "Yes". */
#define SNOOPY_CONF_OUTPUT_ENABLED_file 1

/* Is output "socket" available? Forced "Yes". */
#define SNOOPY_CONF_OUTPUT_ENABLED_socket 1

/* Is output "stderr" available? */
#define SNOOPY_CONF_OUTPUT_ENABLED_stderr 1

/* Is output "stdout" available? */
#define SNOOPY_CONF_OUTPUT_ENABLED_stdout 1

/* Is output "syslog" available? */
/* #undef SNOOPY_CONF_OUTPUT_ENABLED_syslog */

/* Target installation directory for the CLI tool */
#define SNOOPY_CONF_SBINDIR "/usr/local/sbin"

/* Target installation directory for the configuration file */
#define SNOOPY_CONF_SYSCONFDIR "/usr/local/etc"

/* Syslog facility to use by default */
#define SNOOPY_CONF_SYSLOG_FACILITY LOG_AUTHPRIV

/* Syslog ident to use by default */
#define SNOOPY_CONF_SYSLOG_IDENT_FORMAT "snoopy"

/* Syslog level to use by default */
#define SNOOPY_CONF_SYSLOG_LEVEL LOG_INFO

/* thread safety */
#define SNOOPY_CONF_THREAD_SAFETY_ENABLED 1

/* Define to 1 if all of the C90 standard headers exist (not just the ones
   required in a freestanding environment). This macro is provided for
   backward compatibility; new code need not use it. */
#define STDC_HEADERS 1

/* Define to 1 if strerror_r returns char *. */
/* #undef STRERROR_R_CHAR_P */

/* Version number of package */
#define VERSION "765378a"

/* Define to `int' if <sys/types.h> doesn't define. */
/* #undef gid_t */

/* Define to `__inline__' or `__inline' if that's what the C compiler
   calls it, or to nothing if 'inline' is not supported under any name.  */
#ifndef __cplusplus
/* #undef inline */
#endif

/* Define to rpl_malloc if the replacement function should be used. */
/* #undef malloc */

/* Define as a signed integer type capable of holding a process identifier. */
/* #undef pid_t */

/* Define to `unsigned int' if <sys/types.h> does not define. */
/* #undef size_t */

/* Define to `int' if <sys/types.h> does not define. */
/* #undef ssize_t */

/* Define to `int' if <sys/types.h> doesn't define. */
/* #undef uid_t */

/* Define as `fork' if `vfork' does not work. */
/* #undef vfork */
