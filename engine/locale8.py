"""An 8-bit locale with Turkish case rules, built with localedef (the image ships neither such a locale nor the i18n sources).
toupper('i') is U+0130 and tolower('I') is U+0131: code that upper-cases ASCII keywords through the locale stops recognising them."""
import os
from .common import sh


def build_turkish_rules_locale(d):
    """returns (LOCPATH, locale name) or None when localedef cannot build it"""
    os.makedirs(d, exist_ok=True)
    cm = ['<code_set_name> VERIFTR', '<comment_char> %', '<escape_char> /', '<mb_cur_min> 1', '<mb_cur_max> 1', 'CHARMAP']
    for b in range(256):
        cm.append('<U%04X> /x%02x' % ({0xDD: 0x130, 0xFD: 0x131}.get(b, b), b))
    cm.append('END CHARMAP')
    open(os.path.join(d, 'VERIFTR.charmap'), 'w').write('\n'.join(cm) + '\n')
    u = lambda c: '<U%04X>' % c
    ups = [u(c) for c in range(65, 91)] + [u(0x130)]
    los = [u(c) for c in range(97, 123)] + [u(0x131)]
    tou = ['(%s,%s)' % (u(97 + k), u(0x130) if 97 + k == ord('i') else u(65 + k)) for k in range(26)] + ['(%s,%s)' % (u(0x131), u(0x49))]
    tol = ['(%s,%s)' % (u(65 + k), u(0x131) if 65 + k == ord('I') else u(97 + k)) for k in range(26)] + ['(%s,%s)' % (u(0x130), u(0x69))]
    src = 'comment_char %%\nescape_char /\nLC_CTYPE\nupper %s\nlower %s\ndigit %s\nspace <U0020>;<U0009>;<U000A>;<U000B>;<U000C>;<U000D>\nblank <U0020>;<U0009>\ntoupper %s\ntolower %s\nEND LC_CTYPE\n' % (
        ';'.join(ups), ';'.join(los), ';'.join(u(c) for c in range(48, 58)), ';'.join(tou), ';'.join(tol))
    open(os.path.join(d, 'tr_VERIF.src'), 'w').write(src)
    out = os.path.join(d, 'loc', 'tr_VERIF')
    os.makedirs(os.path.dirname(out), exist_ok=True)
    sh(['localedef', '-c', '-i', os.path.join(d, 'tr_VERIF.src'), '-f', os.path.join(d, 'VERIFTR.charmap'), out])
    if not os.path.exists(os.path.join(out, 'LC_CTYPE')):
        return None
    return os.path.join(d, 'loc'), 'tr_VERIF'
