"""Generate MANIFEST.json from the checks' META blocks."""
import json, os, importlib
from .common import VERIF

ALL = ['C%02d' % i for i in range(1, 21)]
NOT_APPLICABLE = {}   # id -> reason (properties deliberately not claimed)

ENGINES = [
    {'name': 'E1 variant builder', 'path': 'engine/build.py', 'serves_properties': ALL,
     'kind_free_text': 'compiles the working tree of /repo directly (no autotools) into sanitizer / scheduler / plain variants'},
    {'name': 'E4 h_exec in-process driver + recorder', 'path': 'native/h_exec.c', 'serves_properties': ['C01', 'C04', 'C05', 'C06', 'C07', 'C11', 'C16'],
     'kind_free_text': 'script-driven harness around the production execve wrapper; recorder (native/rec.c) is the real-exec seam; owns all sinks'},
]


def write():
    checks, na = [], []
    for pid in ALL:
        try:
            m = importlib.import_module('checks.' + pid.lower())
        except ModuleNotFoundError:
            na.append({'property_id': pid, 'reason': NOT_APPLICABLE.get(pid, 'check not built yet in this revision (planned, see DESIGN.md section 5)')})
            continue
        M = m.META
        c = {
            'property_id': pid,
            'quick_cmd': 'bin/verif check %s --tier quick' % pid,
            'thorough_cmd': 'bin/verif check %s --tier thorough' % pid,
            'evidence_file': 'evidence/%s.json' % pid,
            'engine': M.get('engine', 'bin/verif'),
            'level_claimed': {'category': M['level'], 'text': M['text'], 'design_ref': M.get('design_ref', 'DESIGN.md section 5 ' + pid)},
            'level_note': M['note'],
            'technique': M['technique'],
        }
        checks.append(c)
    man = {
        'version': 1,
        'setup_cmd': 'bin/verif setup',
        'hooks': {
            'guard': 'A2O_SNOOPY_VERIF',
            'enable': 'no source hooks: seams are a generated config.h (config path variable), link-time interposition (recorder, connect), '
                      'compiler-command-line renames of pthread primitives for the scheduler build, and ptrace',
            'baseline_off_cmd': 'bin/baseline.sh /repo',
            'source_commits': [],
            'add_only': True,
        },
        'engines': ENGINES,
        'checks': checks,
        'not_applicable': na,
        'notes': 'All checks rebuild snoopy from the current working tree of /repo (env VERIF_REPO overrides) on every run. '
                 'known-findings.jsonl lists repaired ("fixed") and recorded ("known") genuine defects.',
    }
    with open(os.path.join(VERIF, 'MANIFEST.json'), 'w') as f:
        json.dump(man, f, indent=1)
    return man
