"""E2 - Python side: build the scheduler harness and explore schedules with a preemption bound.

Explorer = the idiom of CHESS-style iterative context bounding: run(prefix) replays the prefix of
choices and takes choice 0 afterwards; for every later point whose extra preemption cost stays
within the bound, recurse on each alternative.  One process per execution.
"""
import os, json, shutil, subprocess
from concurrent.futures import ThreadPoolExecutor
from .common import sh_watch, VERIF, BUILD, NCPU, sh, CLEAN_ENV
from . import build, harness as H

NATIVE = os.path.join(VERIF, 'native')


from .build import NONREENTRANT


def build_thr(variant, san='asan', fn=False, repo=None, io=False):
    extra = ['-finstrument-functions'] if fn else []
    if io:
        extra += ['-Dwrite=vs_write', '-Dwritev=vs_writev', '-Dclose=vs_close', '-Dfprintf=vs_fprintf', '-Dprintf=vs_printf', '-Dfputs=vs_fputs', '-Dfputc=vs_fputc', '-Dputs=vs_puts',
                  '-Dfwrite=vs_fwrite', '-Dfflush=vs_fflush', '-Dumask=vs_umask', '-Dopen=vs_open']
    # non-reentrant libc calls: redirected to instrumented stand-ins with a scheduling point (native/nonreentrant.c)
    extra += ['-D%s=vs_%s' % (f, f) for f in NONREENTRANT] + ['-Dtzset=vs_tzset', '-Dlocaltime_r=vs_localtime_r', '-Dstrftime=vs_strftime', '-Dgetlogin_r=vs_getlogin_r', '-Dflockfile=vs_flockfile', '-Dfunlockfile=vs_funlockfile']     # tzset: libc lock held across system calls (see nonreentrant.c)
    v = build.build_variant(variant, san=san, sched=True, extra_cflags=extra, repo=repo)
    rec = build.build_shared('librec.so', [os.path.join(NATIVE, 'rec.c')])
    # the scheduler itself: no sanitizer, no instrumentation
    vo = os.path.join(v['dir'], 'vsched.o')
    r = sh(['gcc', '-O1', '-g', '-c', os.path.join(NATIVE, 'vsched.c'), '-o', vo, '-I' + NATIVE])
    if r.returncode:
        raise build.BuildError('vsched: ' + r.stderr.decode()[:2000])
    v['h_thr'] = build.link_harness(v, os.path.join(v['dir'], 'h_thr'), [os.path.join(NATIVE, 'h_thr.c'), os.path.join(NATIVE, 'seam.c'), os.path.join(NATIVE, 'nonreentrant.c')], extra_objs=[vo],
                                    extra_ld=['-L' + os.path.dirname(rec), '-lrec', '-Wl,-rpath,' + os.path.dirname(rec)])
    return v


def tsan_env(w):
    e = dict(CLEAN_ENV)
    e['TSAN_OPTIONS'] = 'exitcode=66:log_path=%s/tsan:halt_on_error=0:report_signal_unsafe=0:die_after_fork=0' % w
    return e


UNREPRODUCIBLE_HANGS = []      # (prefix, first verdict) of runs that hung or timed out once and completed when replayed


class Execution:
    __slots__ = ('prefix', 'points', 'rc', 'result', 'log', 'san', 'trace_tail', 'child_traces', 'timed_out', 'stdout', 'hang')


def run_one(h_thr, w, cfgtext, n, k, mode, prefix, san='asan', fn=False, extra_args=(), timeout=60, env_extra=None):
    shutil.rmtree(w, ignore_errors=True)
    os.makedirs(w)
    ini = os.path.join(w, 'snoopy.ini')
    open(ini, 'w').write(cfgtext.replace('@W@', w))
    env = H.san_env(w) if san != 'tsan' else tsan_env(w)
    env['VS_PREFIX'] = ','.join(map(str, prefix))
    env['VS_TRACE'] = os.path.join(w, 'trace')
    env['LOGNAME'] = 'lg'
    env['V'] = 'envvalue'
    env['VS_STDIN_PTY'] = '1'
    if fn:
        env['VS_FN'] = '1'
    if env_extra:
        env.update(env_extra)
    res = os.path.join(w, 'res.json')
    x = Execution()
    x.prefix = list(prefix)
    x.timed_out = False
    x.stdout = b''
    # the scheduler reports deadlock / livelock among ITS threads itself (exit 77 / 79).  A run that goes on for seconds is examined
    # (engine.common.sh_watch): a process tree in which nothing is runnable and nothing consumes CPU is hung (e.g. a forked child
    # blocked in the kernel on something it inherited) and reported at once; a tree that is merely slow gets 5x the limit.
    r, verdict = sh_watch([h_thr, ini, res, str(n), str(k), mode] + list(extra_args), timeout, env=env, cwd=w)
    if verdict != 'done':
        # replay before report: the schedule is deterministic, so a genuine hang hangs again; one that does not is an artefact of the
        # run (it is counted by the caller through x.unreproducible_hang and never becomes a verdict)
        for f in os.listdir(w):
            if f != 'snoopy.ini':
                try:
                    os.unlink(os.path.join(w, f))
                except OSError:
                    pass
        r2, verdict2 = sh_watch([h_thr, ini, res, str(n), str(k), mode] + list(extra_args), timeout, env=env, cwd=w)
        if verdict2 == 'done':
            UNREPRODUCIBLE_HANGS.append((list(prefix), verdict))
            r, verdict = r2, verdict2
    x.rc = r.returncode if verdict == 'done' else -999
    x.stdout = r.stdout or b''
    x.timed_out = verdict != 'done'
    x.hang = verdict
    x.points = []
    x.trace_tail = []
    try:
        for l in open(os.path.join(w, 'trace')):
            try:
                j = json.loads(l)
            except Exception:
                continue
            if 's' in j:
                x.points.append(j)
            else:
                x.trace_tail.append(j)
    except FileNotFoundError:
        pass
    x.child_traces = {}
    for f in os.listdir(w):
        if f.startswith('trace.child'):
            x.child_traces[f] = [l for l in open(os.path.join(w, f)).read().splitlines()[-6:]]
    try:
        x.result = json.load(open(res))
    except Exception:
        x.result = None
    try:
        x.log = open(os.path.join(w, 'log'), 'rb').read()
    except FileNotFoundError:
        x.log = None
    x.san = []
    for f in os.listdir(w):
        if f.startswith(('asan.', 'ubsan.', 'tsan.')):
            x.san.append(open(os.path.join(w, f), errors='replace').read()[:3000])
    return x


def children(x, bound):
    """prefixes to explore next (each deviates from x at one later point), with their preemption counts"""
    out = []
    cost = 0
    choices = [p['c'] for p in x.points]
    for i, p in enumerate(x.points):
        if i >= len(x.prefix):
            for alt in range(1, len(p['en'])):
                c = cost + (1 if p['re'] else 0)
                if c <= bound:
                    out.append(choices[:i] + [alt])
        # cost of the choice actually taken at i
        if p['c'] != 0 and p['re']:
            cost += 1
    return out


def explore(runner, bound, check, deadline=None, max_exec=None, jobs=None):
    """runner(prefix) -> Execution; check(x) called for every execution.  Returns (executions, complete?)"""
    import time
    frontier = [[]]
    n = 0
    complete = True
    with ThreadPoolExecutor(max_workers=jobs or NCPU) as ex:
        while frontier:
            batch, frontier = frontier[:4000], frontier[4000:]
            for x in ex.map(runner, batch):
                n += 1
                check(x)
                frontier.extend(children(x, bound))
            if (deadline and time.time() > deadline) or (max_exec and n >= max_exec):
                if frontier:
                    complete = False
                break
    return n, complete


def explore_hashed(runner, check, deadline=None, max_exec=None, jobs=None):
    """State-hashed exploration WITHOUT a preemption bound: an alternative at a point is explored only if the edge
    (state key at that point, thread that would move) has not been taken or scheduled before.  The state key is computed by
    the scheduler: every thread's position and status, the mutex model, the harness's digest of the shared registry.
    Soundness of merging rests on: a thread's private state is a function of its own position and of the shared state it
    read under the lock (reported separately from the bounded passes, which rest on nothing)."""
    import time
    seen = set()
    states = set()
    frontier = [[]]
    n = 0
    complete = True
    with ThreadPoolExecutor(max_workers=jobs or NCPU) as ex:
        while frontier:
            batch, frontier = frontier[:256], frontier[256:]
            for x in ex.map(runner, batch):
                n += 1
                check(x)
                choices = [p['c'] for p in x.points]
                for i, p in enumerate(x.points):
                    states.add(p['k'])
                    for alt in range(len(p['en'])):
                        edge = (p['k'], p['en'][alt])
                        if alt == p['c']:
                            seen.add(edge)
                        elif i >= len(x.prefix) and edge not in seen:
                            seen.add(edge)
                            frontier.append(choices[:i] + [alt])
            if (deadline and time.time() > deadline) or (max_exec and n >= max_exec):
                if frontier:
                    complete = False
                break
    return n, complete, len(states), len(seen)
