"""Shared plumbing for all checks: paths, process helpers, evidence writer, violation reporting.

Every check is a Python module checks/cXX.py exposing run(ck) where ck is a Check object.
The deciding step of every check is complete enumeration of a stated finite space; nothing in
here samples.  VERIF_SEED is accepted and recorded only.
"""
import json, os, sys, time, hashlib, subprocess, shutil, re
from concurrent.futures import ThreadPoolExecutor

VERIF = os.path.dirname(os.path.dirname(os.path.abspath(__file__)))
REPO = os.environ.get('VERIF_REPO', '/repo')
# VERIF_SCRATCH redirects every output (build, evidence, replays) - used when checking a mutated scratch copy of the repo
# (VERIF_REPO) so that evidence/ of the real tree is not touched.
OUT = os.environ.get('VERIF_SCRATCH', VERIF)
BUILD = os.path.join(OUT, 'build')
# helper binaries (recorder, ptrace executors, batch runner) are built per process: several checks may run at the same time
AUX = os.path.join(BUILD, 'aux-%d' % os.getpid())
NCPU = int(os.environ.get('VERIF_JOBS', str(os.cpu_count() or 4)))

CLEAN_ENV = {'PATH': '/usr/local/bin:/usr/bin:/bin', 'LC_ALL': 'C', 'TZ': 'UTC', 'HOME': '/root'}


def sh(cmd, **kw):
    """Run a command, return CompletedProcess (never raises on exit status)."""
    kw.setdefault('stdout', subprocess.PIPE)
    kw.setdefault('stderr', subprocess.PIPE)
    return subprocess.run(cmd, **kw)


def pmap(fn, items, jobs=None):
    """Ordered parallel map using threads (work is in subprocesses)."""
    items = list(items)
    if not items:
        return []
    with ThreadPoolExecutor(max_workers=jobs or NCPU) as ex:
        return list(ex.map(fn, items))


def digest(b):
    if isinstance(b, str):
        b = b.encode('utf-8', 'surrogateescape')
    return hashlib.sha1(b).hexdigest()[:16]


def load_known_findings():
    p = os.path.join(VERIF, 'known-findings.jsonl')
    out = []
    if os.path.exists(p):
        for l in open(p):
            l = l.strip()
            if not l or l.startswith('#'):
                continue
            out.append(json.loads(l))
    return out


class Check:
    """Collects counters, violations and writes evidence/<id>.json.

    A violation carries a *signature* (string).  known-findings.jsonl entries with
    status "known" and a regex `match` suppress (as KNOWN-FINDING lines) exactly the violations
    whose signature matches; entries with status "fixed" suppress nothing.
    """

    def __init__(self, pid, tier, level):
        self.id = pid
        self.tier = tier
        self.level = level
        self.seed = int(os.environ.get('VERIF_SEED', '0') or 0)
        self.t0 = time.time()
        self.deadline = self.t0 + (float(os.environ.get('VERIF_DEADLINE_S', '0')) or
                                   (280 if tier == 'quick' else 3300))
        self.violations = []      # (sig, replay_path)
        self.known_hits = {}      # finding index -> count
        self.known = [k for k in load_known_findings() if k.get('property') == pid]
        self.cov = {}
        self.assumptions = []
        self.capped = False
        self.workdir = os.path.join(BUILD, 'run-%s-%d' % (pid, os.getpid()))
        self.replay_dir = os.path.join(OUT, 'replays', pid)
        self._nrep = 0
        shutil.rmtree(self.workdir, ignore_errors=True)
        os.makedirs(self.workdir, exist_ok=True)
        shutil.rmtree(self.replay_dir, ignore_errors=True)

    # ----- time budget
    def time_left(self):
        return self.deadline - time.time()

    def out_of_time(self):
        if time.time() > self.deadline:
            self.capped = True
            return True
        return False

    # ----- violations
    def violation(self, sig, detail):
        """Record one violating case.  detail: JSON-able dict (the replay artefact)."""
        for i, k in enumerate(self.known):
            if k.get('status') == 'known' and re.search(k['match'], sig):
                self.known_hits[i] = self.known_hits.get(i, 0) + 1
                return False
        # cap number of stored artefacts but count all
        self._nrep += 1
        path = None
        if self._nrep <= 25:
            os.makedirs(self.replay_dir, exist_ok=True)
            path = os.path.join(self.replay_dir, '%03d.json' % self._nrep)
            with open(path, 'w') as f:
                json.dump({'property': self.id, 'signature': sig, 'detail': detail}, f, indent=1,
                          default=repr)
        self.violations.append((sig, path))
        return True

    # ----- finish
    def coverage(self, **cov):
        self.cov.update(cov)

    def finish(self):
        c = self.cov
        c.setdefault('exhaustive', not self.capped)
        if self.capped:
            c['exhaustive'] = False
            c['cap_hit'] = 'global deadline reached; counts are what was completed'
        c['known_findings_matched'] = sum(self.known_hits.values())
        ev = {
            'property_id': self.id, 'tier': self.tier, 'seed': self.seed, 'level': self.level,
            'coverage': c, 'assumptions': self.assumptions,
            'wall_s': round(time.time() - self.t0, 2), 'violations': len(self.violations),
        }
        os.makedirs(os.path.join(OUT, 'evidence'), exist_ok=True)
        with open(os.path.join(OUT, 'evidence', self.id + '.json'), 'w') as f:
            json.dump(ev, f, indent=1, default=repr)
        for i, n in sorted(self.known_hits.items()):
            print('KNOWN-FINDING: property=%s %s (%d matching cases this run)' %
                  (self.id, self.known[i]['what'], n))
        seen = set()
        for sig, path in self.violations:
            if path is None or sig in seen:
                continue
            seen.add(sig)
            print('VIOLATION property=%s replay=%s  # %s' % (self.id, path, sig))
        if self.violations:
            extra = len(self.violations) - len(seen)
            print('%s: %d violating cases (%d distinct signatures shown)' %
                  (self.id, len(self.violations), len(seen)))
        else:
            shutil.rmtree(self.workdir, ignore_errors=True)
        if not self.violations:
            import glob
            for d in glob.glob(os.path.join(BUILD, '*-%d' % os.getpid())):
                shutil.rmtree(d, ignore_errors=True)
        print('%s %s: %s wall=%.1fs %s' % (self.id, self.tier,
              'VIOLATED' if self.violations else 'held', time.time() - self.t0,
              json.dumps({k: v for k, v in c.items() if isinstance(v, (int, float, bool))})))
        sys.stdout.flush()
        return 1 if self.violations else 0
