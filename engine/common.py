"""Shared plumbing for all checks: paths, process helpers, evidence writer, violation reporting.

Every check is a Python module checks/cXX.py exposing run(ck) where ck is a Check object.
The deciding step of every check is complete enumeration of a stated finite space; nothing in
here samples.  VERIF_SEED is accepted and recorded only.
"""
import json, os, sys, time, hashlib, subprocess, shutil, re
from concurrent.futures import ThreadPoolExecutor

VERIF = os.path.dirname(os.path.dirname(os.path.abspath(__file__)))
REPO = os.environ.get('VERIF_REPO', '/repo')
# VERIF_SCRATCH redirects every output (build, evidence, replays) - used when checking a mutated scratch copy of the repo
# (VERIF_REPO) so that evidence/ of the real tree is not touched.
OUT = os.environ.get('VERIF_SCRATCH', VERIF)
BUILD = os.path.join(OUT, 'build')
# helper binaries (recorder, ptrace executors, batch runner) are built per process: several checks may run at the same time
AUX = os.path.join(BUILD, 'aux-%d' % os.getpid())
NCPU = int(os.environ.get('VERIF_JOBS', str(os.cpu_count() or 4)))

CLEAN_ENV = {'PATH': '/usr/local/bin:/usr/bin:/bin', 'LC_ALL': 'C', 'TZ': 'UTC', 'HOME': '/root'}


def sh(cmd, **kw):
    """Run a command, return CompletedProcess (never raises on exit status)."""
    kw.setdefault('stdout', subprocess.PIPE)
    kw.setdefault('stderr', subprocess.PIPE)
    return subprocess.run(cmd, **kw)


def _tree(pid):
    """pids of a process and all its descendants (via /proc/<pid>/task/*/children)"""
    out, todo = [], [pid]
    while todo:
        p = todo.pop()
        out.append(p)
        try:
            for t in os.listdir('/proc/%d/task' % p):
                try:
                    todo += [int(x) for x in open('/proc/%d/task/%s/children' % (p, t)).read().split()]
                except OSError:
                    pass
        except OSError:
            pass
    return out


def _tree_activity(pid):
    """(total cpu ticks of every task in the tree, any task runnable?)"""
    ticks, running = 0, False
    for p in _tree(pid):
        try:
            for t in os.listdir('/proc/%d/task' % p):
                f = open('/proc/%d/task/%s/stat' % (p, t)).read()
                rest = f[f.rindex(')') + 2:].split()
                if rest[0] in ('R',):
                    running = True
                ticks += int(rest[11]) + int(rest[12])
        except (OSError, ValueError, IndexError):
            pass
    return ticks, running


def sh_watch(cmd, timeout, first_check=6.0, **kw):
    """Like sh(), but a run that exceeds `first_check` seconds is examined instead of being waited for blindly: if no task of the
    process tree is runnable and the tree consumed no CPU for 1.5 s, nothing can wake it up any more - it is a HANG (killed, reported
    at once). A tree that is still working is given up to 5 x timeout (a loaded machine is slow, not hung).
    Returns (CompletedProcess-like or None, verdict) with verdict in ('done', 'hang', 'timeout')."""
    import time
    kw.setdefault('stdout', subprocess.PIPE)
    kw.setdefault('stderr', subprocess.PIPE)
    kw['start_new_session'] = True
    inp = kw.pop('input', None)
    if inp is not None:
        kw['stdin'] = subprocess.PIPE
    p = subprocess.Popen(cmd, **kw)
    t0 = time.time()
    verdict = 'done'
    try:
        out, err = p.communicate(inp, timeout=first_check)
    except subprocess.TimeoutExpired:
        out = err = None
        while True:
            a1 = _tree_activity(p.pid)
            try:
                out, err = p.communicate(timeout=1.5)
                break
            except subprocess.TimeoutExpired:
                pass
            a2 = _tree_activity(p.pid)
            if not a1[1] and not a2[1] and a1[0] == a2[0]:
                verdict = 'hang'
            elif time.time() - t0 > timeout * 5:
                verdict = 'timeout'
            if verdict != 'done':
                try:
                    os.killpg(p.pid, 9)
                except OSError:
                    pass
                for q in _tree(p.pid):
                    try:
                        os.kill(q, 9)
                    except OSError:
                        pass
                try:
                    out, err = p.communicate(timeout=10)
                except Exception:
                    out, err = b'', b''
                break
    return subprocess.CompletedProcess(cmd, p.returncode, out, err), verdict


def pmap(fn, items, jobs=None):
    """Ordered parallel map using threads (work is in subprocesses)."""
    items = list(items)
    if not items:
        return []
    with ThreadPoolExecutor(max_workers=jobs or NCPU) as ex:
        return list(ex.map(fn, items))


def digest(b):
    if isinstance(b, str):
        b = b.encode('utf-8', 'surrogateescape')
    return hashlib.sha1(b).hexdigest()[:16]


def load_known_findings():
    p = os.path.join(VERIF, 'known-findings.jsonl')
    out = []
    if os.path.exists(p):
        for l in open(p):
            l = l.strip()
            if not l or l.startswith('#'):
                continue
            out.append(json.loads(l))
    return out


class Check:
    """Collects counters, violations and writes evidence/<id>.json.

    A violation carries a *signature* (string).  known-findings.jsonl entries with
    status "known" and a regex `match` suppress (as KNOWN-FINDING lines) exactly the violations
    whose signature matches; entries with status "fixed" suppress nothing.
    """

    def __init__(self, pid, tier, level):
        self.id = pid
        self.tier = tier
        self.level = level
        self.seed = int(os.environ.get('VERIF_SEED', '0') or 0)
        self.t0 = time.time()
        self.deadline = self.t0 + (float(os.environ.get('VERIF_DEADLINE_S', '0')) or
                                   (280 if tier == 'quick' else 3300))
        self.violations = []      # (sig, replay_path)
        self.known_hits = {}      # finding index -> count
        self.known = [k for k in load_known_findings() if k.get('property') == pid]
        self.cov = {}
        self.assumptions = []
        self.capped = False
        self.workdir = os.path.join(BUILD, 'run-%s-%d' % (pid, os.getpid()))
        self.replay_dir = os.path.join(OUT, 'replays', pid)
        self._nrep = 0
        shutil.rmtree(self.workdir, ignore_errors=True)
        os.makedirs(self.workdir, exist_ok=True)
        shutil.rmtree(self.replay_dir, ignore_errors=True)

    # ----- time budget
    def time_left(self):
        return self.deadline - time.time()

    def out_of_time(self):
        if time.time() > self.deadline:
            self.capped = True
            return True
        return False

    # ----- violations
    def violation(self, sig, detail):
        """Record one violating case.  detail: JSON-able dict (the replay artefact)."""
        for i, k in enumerate(self.known):
            if k.get('status') == 'known' and re.search(k['match'], sig):
                self.known_hits[i] = self.known_hits.get(i, 0) + 1
                return False
        # cap number of stored artefacts but count all
        self._nrep += 1
        path = None
        if self._nrep <= 25:
            os.makedirs(self.replay_dir, exist_ok=True)
            path = os.path.join(self.replay_dir, '%03d.json' % self._nrep)
            with open(path, 'w') as f:
                json.dump({'property': self.id, 'signature': sig, 'detail': detail}, f, indent=1,
                          default=repr)
        self.violations.append((sig, path))
        return True

    # ----- finish
    def coverage(self, **cov):
        self.cov.update(cov)

    def finish(self):
        c = self.cov
        c.setdefault('exhaustive', not self.capped)
        if self.capped:
            c['exhaustive'] = False
            c['cap_hit'] = 'global deadline reached; counts are what was completed'
        c['known_findings_matched'] = sum(self.known_hits.values())
        ev = {
            'property_id': self.id, 'tier': self.tier, 'seed': self.seed, 'level': self.level,
            'coverage': c, 'assumptions': self.assumptions,
            'wall_s': round(time.time() - self.t0, 2), 'violations': len(self.violations),
        }
        os.makedirs(os.path.join(OUT, 'evidence'), exist_ok=True)
        with open(os.path.join(OUT, 'evidence', self.id + '.json'), 'w') as f:
            json.dump(ev, f, indent=1, default=repr)
        for i, n in sorted(self.known_hits.items()):
            print('KNOWN-FINDING: property=%s %s (%d matching cases this run)' %
                  (self.id, self.known[i]['what'], n))
        seen = set()
        for sig, path in self.violations:
            if path is None or sig in seen:
                continue
            seen.add(sig)
            print('VIOLATION property=%s replay=%s  # %s' % (self.id, path, sig))
        if self.violations:
            extra = len(self.violations) - len(seen)
            print('%s: %d violating cases (%d distinct signatures shown)' %
                  (self.id, len(self.violations), len(seen)))
        else:
            shutil.rmtree(self.workdir, ignore_errors=True)
        if not self.violations:
            import glob
            for d in glob.glob(os.path.join(BUILD, '*-%d' % os.getpid())):
                shutil.rmtree(d, ignore_errors=True)
        print('%s %s: %s wall=%.1fs %s' % (self.id, self.tier,
              'VIOLATED' if self.violations else 'held', time.time() - self.t0,
              json.dumps({k: v for k, v in c.items() if isinstance(v, (int, float, bool))})))
        sys.stdout.flush()
        return 1 if self.violations else 0


def run_fixed_schedule(cmd, env, cwd=None, ok=(0,), setup=(2,), tries=3, timeout=120):
    """Run a fixed-schedule harness (a real-kernel schedule arranged with sleeps and /proc polling).  Such a program can fail to ARRANGE its schedule on
    a busy machine; that is not a verdict.  Returns ('ok' | 'violation' | 'not_reached', last CompletedProcess-like).  A violation is reported only if
    every one of `tries` runs ends with a violation status (a real defect under a fixed schedule fails every time); one clean run decides 'ok'."""
    import subprocess
    last = None
    seen = []
    for _ in range(tries):
        try:
            rv = sh(cmd, env=env, cwd=cwd, timeout=timeout)
        except subprocess.TimeoutExpired:
            class T:
                returncode, stdout, stderr = -999, b'', b'timed out'
            rv = T()
        last = rv
        if rv.returncode in ok:
            return 'ok', rv
        seen.append('setup' if (rv.returncode in setup or rv.returncode == -999) else 'violation')
        if seen[-1] == 'violation' and len([x for x in seen if x == 'violation']) >= tries:
            break
    if seen and all(x == 'violation' for x in seen) and len(seen) >= tries:
        return 'violation', last
    if 'violation' in seen and 'setup' not in seen:
        return 'violation', last
    return 'not_reached', last
