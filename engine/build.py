"""E1 - variant builder: compiles snoopy's sources straight from the working tree of REPO.

No autotools: globs the sources, uses the project's own flags (build/Makefile.am.common) plus the
inih flags parsed from lib/inih/src/Makefile.am, against a generated config.h.

The generated config.h is /verif/engine/config.base.h (a copy of the config.h the pinned tree's
configure run produced: every feature on, syslog output off) with two seams:
  * SNOOPY_CONF_CONFIGFILE_PATH is the *variable* verif_cfgpath (defined in native/seam.c), so the
    production code path (CFG->configfile_path -> snoopy_configfile_load) is kept and every
    harness process can point it at its own file;
  * thread safety is switched per variant.
Nothing is cached between runs: every check rebuilds from the tree (1-2 s on 16 cores).
"""
import os, re, shlex, glob, shutil, subprocess, sys
from .common import VERIF, REPO, BUILD, AUX, NCPU, sh, pmap

COMMON_WARN = ['-Wall', '-Wextra', '-Wno-unused-parameter', '-std=c99', '-Wpedantic',
               '-fvisibility=hidden']

SAN = {
    'plain': (['gcc'], ['-O0', '-g']),
    # -ftrivial-auto-var-init=pattern: uninitialised automatic storage holds 0xAA.., never a lucky zero - reads of it become deterministic
    'asan': (['clang'], ['-O0', '-g', '-fno-omit-frame-pointer', '-ftrivial-auto-var-init=pattern',
                         '-fsanitize=address,undefined', '-fno-sanitize-recover=undefined']),
    'tsan': (['clang'], ['-O1', '-g', '-fno-omit-frame-pointer', '-fsanitize=thread']),
}

NONREENTRANT = ('localtime', 'gmtime', 'ctime', 'asctime', 'getpwuid', 'getpwnam', 'getgrgid', 'getgrnam', 'ttyname', 'getlogin', 'strtok', 'strerror',
                # libc's ONE process-wide utmp reader (file, position, name): the _r variants only make the RESULT buffer the caller's
                'setutent', 'endutent', 'getutent', 'getutline', 'getutid', 'getutent_r', 'getutline_r', 'getutid_r')

SCHED_DEFS = ['-Dpthread_mutex_lock=vs_mutex_lock', '-Dpthread_mutex_unlock=vs_mutex_unlock',
              '-Dpthread_once=vs_once', '-Dpthread_mutex_init=vs_mutex_init']


class BuildError(Exception):
    pass


def inih_flags(repo):
    """-D flags the project passes to inih, parsed from the tree (binds INI_MAX_LINE to the code)."""
    p = os.path.join(repo, 'lib/inih/src/Makefile.am')
    flags = []
    for l in open(p):
        m = re.match(r'\s*AM_CFLAGS\s*\+=\s*(.*)$', l)
        if m:
            flags += [f for f in shlex.split(m.group(1)) if f.startswith('-D')]
    return flags


def gen_config_h(outdir, ts=True, extra_undef=(), extra_def=(), compiled_in=False):
    base = open(os.path.join(VERIF, 'engine/config.base.h')).read()
    out = []
    for l in base.splitlines():
        m = re.match(r'#define (\w+)', l)
        name = m.group(1) if m else None
        if name == 'SNOOPY_CONF_CONFIGFILE_PATH':
            out.append('extern char verif_cfgpath[4096];')
            out.append('#define SNOOPY_CONF_CONFIGFILE_PATH (verif_cfgpath)')
            continue
        if name == 'SNOOPY_CONF_THREAD_SAFETY_ENABLED' and not ts:
            continue
        if name == 'SNOOPY_CONF_DATASOURCE_ENABLED_snoopy_threads' and not ts:
            continue
        if name in extra_undef:
            continue
        if compiled_in:
            # no configuration file; the compiled-in strings are variables of native/seam.c (one build, every compiled-in setting)
            if name in ('SNOOPY_CONF_CONFIGFILE_ENABLED',):
                continue
            seam = {'SNOOPY_CONF_MESSAGE_FORMAT': 'verif_def_format', 'SNOOPY_CONF_FILTER_CHAIN': 'verif_def_chain', 'SNOOPY_CONF_SYSLOG_IDENT_FORMAT': 'verif_def_ident'}
            if name in seam:
                out.append('extern char %s[];' % seam[name])
                out.append('#define %s (%s)' % (name, seam[name]))
                continue
        out.append(l)
    if compiled_in:
        out += ['extern char verif_def_output[]; extern char verif_def_output_arg[];', '#define SNOOPY_CONF_OUTPUT_DEFAULT (verif_def_output)', '#define SNOOPY_CONF_OUTPUT_DEFAULT_ARG (verif_def_output_arg)']
    for d in extra_def:
        out.append('#define %s' % d)
    os.makedirs(outdir, exist_ok=True)
    with open(os.path.join(outdir, 'config.h'), 'w') as f:
        f.write('\n'.join(out) + '\n')


def lib_sources(repo, ts=True, syslog_output=False):
    s = []
    for pat in ['src/*.c', 'src/action/*.c', 'src/datasource/*.c', 'src/filter/*.c',
                'src/output/*.c', 'src/util/*.c']:
        s += sorted(glob.glob(os.path.join(repo, pat)))
    if not syslog_output:
        s = [x for x in s if not x.endswith('/syslogoutput.c')]
    if not ts:
        s = [x for x in s if not x.endswith('/src/tsrm.c') and not x.endswith('/util/list.c')
             and not x.endswith('/datasource/snoopy_threads.c')]
    s.append(os.path.join(repo, 'lib/inih/src/ini.c'))
    return s


def objname(src, repo):
    rel = os.path.relpath(src, repo)
    return rel.replace('/', '__')[:-2] + '.o'


def compile_many(jobs):
    """jobs: list of (argv, src).  Raises BuildError with compiler output."""
    def one(j):
        r = sh(j)
        return (r.returncode, r.stderr.decode(errors='replace'), j)
    res = pmap(one, jobs)
    bad = [r for r in res if r[0] != 0]
    if bad:
        raise BuildError('compile failed: %s\n%s' % (' '.join(bad[0][2]), bad[0][1][:4000]))


def build_variant(name, ts=True, san='asan', sched=False, pic=False, entry=('execve-wrapper',),
                  repo=None, extra_cflags=(), force=True, compiled_in=False, nonreentrant=False, syslog_output=False, cfg_def=()):
    """Compile the library sources into BUILD/<name>/obj/*.o; returns dict(dir, objs, cc, cflags, ldflags)."""
    repo = repo or REPO
    d = os.path.join(BUILD, '%s-%d' % (name, os.getpid()))      # per-process: the same check may run twice at the same time
    if force:
        shutil.rmtree(d, ignore_errors=True)
    od = os.path.join(d, 'obj')
    os.makedirs(od, exist_ok=True)
    gen_config_h(os.path.join(d, 'inc'), ts=ts, compiled_in=compiled_in, extra_def=(['SNOOPY_CONF_OUTPUT_ENABLED_syslog 1'] if syslog_output else []) + list(cfg_def))
    cc, sflags = SAN[san]
    cflags = COMMON_WARN + sflags + ['-I' + os.path.join(d, 'inc'), '-I' + os.path.join(repo, 'src'),
                                     '-I' + repo] + list(extra_cflags)
    if pic:
        cflags.append('-fPIC')
    if sched:
        cflags += SCHED_DEFS
    if nonreentrant:
        # non-reentrant libc calls made by the library are redirected to counting stand-ins (native/nonreentrant.c, linked by the harness)
        cflags += ['-D%s=vs_%s' % (f, f) for f in NONREENTRANT]
    srcs = lib_sources(repo, ts, syslog_output)
    for e in entry:
        srcs.append(os.path.join(repo, 'src/entrypoint', e + '.c'))
    jobs, objs = [], []
    ini = inih_flags(repo)
    for s in srcs:
        o = os.path.join(od, objname(s, repo))
        fl = list(cflags)
        if s.endswith('/ini.c'):
            fl += ini
        if '/entrypoint/' in s:
            fl.append('-Wno-pedantic')
        jobs.append(cc + fl + ['-c', s, '-o', o])
        objs.append(o)
    compile_many(jobs)
    ld = [f for f in sflags if f.startswith('-fsanitize')] + ['-ldl', '-lpthread']
    return {'dir': d, 'objs': objs, 'cc': cc, 'cflags': cflags, 'ldflags': ld, 'repo': repo,
            'san': san, 'ts': ts, 'nonreentrant': nonreentrant and not sched}


def link_harness(v, out, sources, extra_objs=(), extra_cflags=(), extra_ld=(), san_sources=True):
    """Compile harness C sources (from /verif/native) and link with the variant's objects."""
    cc = v['cc']
    hobjs = []
    jobs = []
    nr = os.path.join(VERIF, 'native/nonreentrant.c')
    if v.get('nonreentrant') and nr not in sources:
        sources = list(sources) + [nr]      # the library objects of this variant call the counting stand-ins
    for s in sources:
        o = os.path.join(v['dir'], 'h_' + os.path.basename(s)[:-2] + '_' + os.path.basename(out) + '.o')
        fl = ['-O0', '-g', '-D_GNU_SOURCE', '-I' + os.path.join(v['dir'], 'inc'),
              '-I' + os.path.join(v['repo'], 'src'), '-I' + v['repo'], '-I' + os.path.join(VERIF, 'native')]
        fl += [f for f in v['cflags'] if f.startswith('-fsanitize') or f.startswith('-fno-sanitize')
               or f == '-fno-omit-frame-pointer' or f == '-fPIC']
        if any('undefined' in f for f in fl):
            fl.append('-fno-sanitize=nonnull-attribute')
        fl += list(extra_cflags)
        jobs.append(cc + fl + ['-c', s, '-o', o])
        hobjs.append(o)
    compile_many(jobs)
    r = sh(cc + hobjs + list(v['objs']) + list(extra_objs) + ['-o', out] + v['ldflags'] + list(extra_ld))
    if r.returncode != 0:
        raise BuildError('link failed: ' + r.stderr.decode(errors='replace')[:4000])
    return out


def build_shared(name, sources, cc=('gcc',), cflags=()):
    """Small helper .so (recorder etc.) built without sanitizers."""
    d = AUX
    os.makedirs(d, exist_ok=True)
    out = os.path.join(d, name)
    r = sh(list(cc) + ['-O1', '-g', '-fPIC', '-shared', '-D_GNU_SOURCE', '-I' + os.path.join(VERIF, 'native')] +
           list(cflags) + list(sources) + ['-o', out, '-ldl'])
    if r.returncode != 0:
        raise BuildError('aux build failed: ' + r.stderr.decode(errors='replace')[:4000])
    return out


def build_cli(name='cli', san='plain', repo=None):
    """snoopyctl from the tree: src/cli/*.c + util objects."""
    repo = repo or REPO
    d = os.path.join(BUILD, '%s-%d' % (name, os.getpid()))
    shutil.rmtree(d, ignore_errors=True)
    od = os.path.join(d, 'obj')
    os.makedirs(od, exist_ok=True)
    gen_config_h(os.path.join(d, 'inc'), ts=True)
    cc, sflags = SAN[san]
    cflags = COMMON_WARN + sflags + ['-I' + os.path.join(d, 'inc'), '-I' + os.path.join(repo, 'src'), '-I' + repo]
    srcs = sorted(glob.glob(os.path.join(repo, 'src/cli/*.c'))) + [x for x in sorted(glob.glob(os.path.join(repo, 'src/util/*.c'))) if not x.endswith('/list.c')]
    jobs, objs = [], []
    for s in srcs:
        o = os.path.join(od, objname(s, repo))
        jobs.append(cc + cflags + ['-c', s, '-o', o])
        objs.append(o)
    compile_many(jobs)
    out = os.path.join(d, 'snoopyctl')
    seam = os.path.join(VERIF, 'native/seam.c')
    r = sh(cc + objs + [seam, '-o', out] + [f for f in sflags if f.startswith('-fsanitize')] + ['-ldl', '-lpthread'])
    if r.returncode != 0:
        raise BuildError('cli link failed: ' + r.stderr.decode(errors='replace')[:4000])
    return out


def build_libsnoopy_so(name='so', san='plain', ts=True, repo=None):
    """libsnoopy.so (production entry points + cli entry point) with the cfgpath seam read from env."""
    v = build_variant(name, ts=ts, san=san, pic=True, entry=('execve-wrapper', 'cli'), repo=repo)
    out = os.path.join(v['dir'], 'libsnoopy.so')
    seam = os.path.join(VERIF, 'native/seam.c')
    r = sh(v['cc'] + ['-shared', '-fPIC', '-DVERIF_SEAM_FROM_ENV', '-fvisibility=default', seam] + v['objs'] +
           ['-o', out, '-Wl,-z,now'] + v['ldflags'])
    if r.returncode != 0:
        raise BuildError('so link failed: ' + r.stderr.decode(errors='replace')[:4000])
    v['so'] = out
    return v
