"""Build + drive the h_exec harness (script in, JSON lines out)."""
import os, json, subprocess, shutil
from .common import VERIF, BUILD, CLEAN_ENV, sh
from . import build

NATIVE = os.path.join(VERIF, 'native')


def hx(b):
    """string spec for the harness script language"""
    if isinstance(b, str):
        b = b.encode('latin-1')
    return 'h' + b.hex()


def rep(byte, n):
    return 'r%02xx%d' % (byte if isinstance(byte, int) else ord(byte), n)


def vec(items):
    """items: None -> NULL vector; list of specs (already 'h..'/'r..' or (count, spec))"""
    if items is None:
        return 'N'
    out = []
    for it in items:
        if isinstance(it, tuple):
            out.append('%d*%s' % it)
        else:
            out.append(it)
    return '[' + ','.join(out) + ']'


def build_exec_harness(variant='ts-asan', ts=True, san='asan', heaptrack=False, repo=None, compiled_in=False, syslog_output=False, cfg_def=()):
    v = build.build_variant(variant, ts=ts, san=san, repo=repo, compiled_in=compiled_in, nonreentrant=True, syslog_output=syslog_output, cfg_def=cfg_def)
    rec = build.build_shared('librec.so', [os.path.join(NATIVE, 'rec.c')])
    cf = ['-DVERIF_HEAPTRACK'] if heaptrack else []
    h = build.link_harness(v, os.path.join(v['dir'], 'h_exec'),
                           [os.path.join(NATIVE, 'h_exec.c'), os.path.join(NATIVE, 'seam.c'), os.path.join(NATIVE, 'nonreentrant.c')],
                           extra_cflags=cf,
                           extra_ld=['-L' + os.path.dirname(rec), '-lrec', '-Wl,-rpath,' + os.path.dirname(rec)] + (['-Wl,--wrap=malloc,--wrap=calloc,--wrap=realloc,--wrap=free,--wrap=strdup,--wrap=strndup,--wrap=getline'] if heaptrack else []))
    v['h_exec'] = h
    return v


def san_env(workdir):
    e = dict(CLEAN_ENV)
    e['ASAN_OPTIONS'] = 'detect_leaks=0:abort_on_error=0:exitcode=99:log_path=%s/asan:allocator_may_return_null=1' % workdir
    e['UBSAN_OPTIONS'] = 'print_stacktrace=1:halt_on_error=1:exitcode=98:log_path=%s/ubsan' % workdir
    return e


def run_script(h_exec, workdir, script, env_extra=None, timeout=60, noaslr=False):
    """Run one harness process.  Returns dict(lines=[json...], rc, signal, san=[reports], raw_err)."""
    shutil.rmtree(workdir, ignore_errors=True)
    os.makedirs(workdir)
    env = san_env(workdir)
    if env_extra:
        env.update(env_extra)
    if noaslr:
        env['VERIF_NOASLR'] = '1'
    text = 'W %s\n%s\n' % (workdir, script)
    rfd, wfd = os.pipe()
    env['VERIF_OUTFD'] = '250'

    def pre():
        os.dup2(wfd, 250)
    try:
        p = subprocess.Popen([h_exec], stdin=subprocess.PIPE, stdout=subprocess.DEVNULL, stderr=subprocess.PIPE,
                             env=env, cwd=workdir, preexec_fn=pre, close_fds=False)
    finally:
        pass
    os.close(wfd)
    import threading
    chunks = []

    def rd():
        while True:
            b = os.read(rfd, 1 << 16)
            if not b:
                break
            chunks.append(b)
    t = threading.Thread(target=rd)
    t.start()
    timed_out = False
    try:
        _, err = p.communicate(text.encode('latin-1'), timeout=timeout)
    except subprocess.TimeoutExpired:
        timed_out = True
        p.kill()
        _, err = p.communicate()
    t.join()
    os.close(rfd)
    outb = b''.join(chunks)
    lines, bad = [], []
    for l in outb.split(b'\n'):
        if not l.strip():
            continue
        try:
            lines.append(json.loads(l))
        except Exception:
            bad.append(l[:300].decode('latin-1'))
    reports = []
    for f in os.listdir(workdir):
        if f.startswith('asan.') or f.startswith('ubsan.'):
            reports.append(open(os.path.join(workdir, f), errors='replace').read()[:3000])
    rc = p.returncode
    return {'lines': lines, 'bad': bad, 'rc': rc, 'signal': -rc if rc is not None and rc < 0 else 0,
            'timed_out': timed_out, 'san': reports, 'stderr': err.decode('latin-1')[:2000],
            'done': bool(lines) and lines[-1].get('done') == 1}


def fnv(b):
    h = 1469598103934665603
    for c in b:
        h ^= c
        h = (h * 1099511628211) & 0xFFFFFFFFFFFFFFFF
    return '%016x' % h


def sink_bytes(s):
    """bytes of a sink snapshot entry if hex present else None"""
    if 'hex' in s:
        return bytes.fromhex(s['hex'])
    return None


def sink_is(s, expected):
    """Compare a sink snapshot entry {len,fnv[,hex]} with expected bytes."""
    if s['len'] != len(expected):
        return False
    if 'hex' in s:
        return bytes.fromhex(s['hex']) == expected
    return s['fnv'] == fnv(expected)


def dgrams(s):
    """split the socket accumulator (4-byte LE length + data)* into records; needs hex"""
    b = sink_bytes(s)
    if b is None:
        return None
    out, i = [], 0
    while i < len(b):
        n = int.from_bytes(b[i:i + 4], 'little')
        out.append(b[i + 4:i + 4 + n])
        i += 4 + n
    return out


def write_syms(v, exe, path):
    """List the writable data symbols (incl. function-local statics) of snoopy's own objects as
    'addr size name' lines for the harness `syms` command.  Requires a non-randomised run."""
    names = set()
    r = sh(['nm', '-S', '--defined-only'] + list(v['objs']))
    for l in r.stdout.decode().splitlines():
        p = l.split()
        if len(p) == 4 and p[2] in 'bBdD' and not p[3].startswith(('__', '.', 'asan.', '_')):
            names.add(p[3])
    # thread-local symbols have offsets, not addresses: not part of the digest (their effects are caught by the output oracles)
    tls = set()
    for l in sh(['readelf', '-sW', exe]).stdout.decode(errors='replace').splitlines():
        p = l.split()
        if len(p) >= 8 and p[3] == 'TLS':
            tls.add(p[7])
    names -= tls
    out = []
    r = sh(['nm', '-S', '--defined-only', exe])
    for l in r.stdout.decode().splitlines():
        p = l.split()
        if len(p) == 4 and p[2] in 'bBdD' and p[3] in names:
            out.append((p[3], int(p[0], 16), int(p[1], 16)))
    out.sort()
    # PIE executables are loaded at a fixed base when ASLR is off; the harness adds nothing, so use
    # the run-time base: for non-randomised x86-64 PIE it is 0x555555554000.
    pie = b'DYN' in sh(['readelf', '-h', exe]).stdout
    base = 0x555555554000 if pie else 0
    with open(path, 'w') as f:
        for n, a, s in out:
            f.write('%x %x %s\n' % (a + base, s, n))
    return [n for n, _, _ in out]
