"""E5 - explicit-state search over operation histories with real-state hashing.

A state is the history that reaches it (live C objects cannot be copied); it is rebuilt by replaying
the history in a fresh, non-randomised harness process.  After every step the harness prints a
digest of the library's own writable data (every .data/.bss symbol of snoopy's objects, including
function-local statics), the descriptor table, environment, cwd, umask, signal mask/dispositions
(and live heap in heap-tracking builds).  BFS de-duplicates on that digest: two histories with equal
digest have the same futures because the code is deterministic in (that state, next input, file
system).  When the frontier empties the result holds for histories of ANY length over the alphabet.
"""
import json, os
from . import harness as H
from .common import pmap


def canon(d, d0):
    """canonical, process-independent form of a digest line relative to the process's first digest"""
    # 'stdio' (orientation / error flags of the caller's stdout and stderr) only records that the library has written to those streams
    # at least once: merging states that differ in it alone is sound for history exploration (C16 compares it in its steady-state digests)
    c = {k: v for k, v in d.items() if k not in ('digest', 'env', 'cwd', 'stdio')}
    c['env_changed'] = d['env'] != d0['env']
    c['cwd_changed'] = d['cwd'] != d0['cwd']
    return json.dumps(c, sort_keys=True)


def diff(a, b):
    """human-readable difference between two canonical digests"""
    A, B = json.loads(a), json.loads(b)
    out = {}
    for k in A:
        if k == 'syms':
            for s in A['syms']:
                if A['syms'][s] != B['syms'].get(s):
                    out['sym:' + s] = 'changed'
        elif A[k] != B.get(k):
            out[k] = (A[k], B.get(k))
    return out


class Explorer:
    """letters: dict name -> list of script lines (ending with exactly one `call`).
    prelude: script lines run once at process start (after `syms`)."""

    def __init__(self, h_exec, symfile, workroot, prelude, letters, warmup=None, env_extra=None):
        self.h, self.symfile, self.root = h_exec, symfile, workroot
        self.prelude, self.letters, self.warmup = prelude, letters, warmup
        self.env_extra = env_extra or {}
        self.n = 0
        self.executions = 0

    def run_history(self, hist, warm=True):
        """returns list of (call_json, canonical_digest) per step, plus raw result"""
        self.n += 1
        w = os.path.join(self.root, 'h%06d' % self.n)   # fixed-length names: the work dir may appear in records (cwd)
        lines = ['syms ' + self.symfile] + list(self.prelude) + ['digest init']
        use_warm = bool(self.warmup) and warm
        if use_warm:
            lines += list(self.warmup) + ['digest warm']
        for a in hist:
            lines += list(self.letters[a]) + ['digest ' + a]
        # W substitution: letters may reference the work dir as @W@
        script = '\n'.join(lines).replace('@W@', w)
        r = H.run_script(self.h, w, script, env_extra=dict(self.env_extra, VERIF_HEXMAX='70000'), timeout=120, noaslr=True)
        ds = [l for l in r['lines'] if 'digest' in l]
        calls = [l for l in r['lines'] if 'call' in l]
        if use_warm:
            calls = calls[sum(1 for l in self.warmup if l.startswith('call ')):]
            base = ds[1:] if len(ds) > 1 else []
        else:
            base = ds
        steps = []
        for i, a in enumerate(hist):
            if i < len(calls) and i + 1 < len(base) + 0 + 1 and i + 1 <= len(base) - 1:
                steps.append((calls[i], canon(base[i + 1], ds[0])))
            else:
                steps.append((calls[i] if i < len(calls) else None, None))
        d_start = canon(base[0], ds[0]) if base else None
        return {'steps': steps, 'start': d_start, 'raw': r, 'ok': r['done'] and not r['san'], 'workdir': w}

    def bfs(self, max_depth, on_step, deadline=None, max_states=400):
        """on_step(hist, letter, call_json, result) is the oracle hook, called for every executed (state, letter).
        Returns dict(states, transitions, closed, depth)."""
        import time
        r0 = self.run_history([])
        start = r0['start']
        seen = {start: []}
        frontier = [[]]
        transitions = 0
        depth = 0
        closed = False
        while frontier and depth < max_depth:
            depth += 1
            jobs = [(h, a) for h in frontier for a in self.letters]

            def one(j):
                h, a = j
                return self.run_history(h + [a])
            res = pmap(one, jobs)
            nxt = []
            for (h, a), r in zip(jobs, res):
                transitions += 1
                call, dg = r['steps'][-1]
                on_step(h, a, call, r)
                if dg is not None and dg not in seen:
                    seen[dg] = h + [a]
                    if len(seen) <= max_states:
                        nxt.append(h + [a])
            frontier = nxt
            if not frontier:
                closed = True
            if deadline and time.time() > deadline:
                break
        self.executions = transitions
        return {'states': len(seen), 'transitions': transitions, 'closed': closed, 'depth': depth, 'seen': seen, 'start': start}
