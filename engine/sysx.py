"""Python side of the ptrace executor (E3)."""
import os, json, subprocess
from .common import VERIF, BUILD, AUX, sh
from . import build, harness as H

NATIVE = os.path.join(VERIF, 'native')


def build_sysx():
    d = AUX
    os.makedirs(d, exist_ok=True)
    out = os.path.join(d, 'sysx')
    r = sh(['gcc', '-O1', '-g', '-Wall', os.path.join(NATIVE, 'sysx.c'), '-o', out])
    if r.returncode:
        raise build.BuildError('sysx: ' + r.stderr.decode()[:2000])
    return out


def build_sysxs():
    d = AUX
    os.makedirs(d, exist_ok=True)
    out = os.path.join(d, 'sysxs')
    r = sh(['gcc', '-O1', '-g', '-Wall', os.path.join(NATIVE, 'sysxs.c'), '-o', out])
    if r.returncode:
        raise build.BuildError('sysxs: ' + r.stderr.decode()[:2000])
    return out


def build_h_one(variant='c03-ts-asan', san='asan', heaptrack=False):
    v = build.build_variant(variant, san=san)
    rec = build.build_shared('librec.so', [os.path.join(NATIVE, 'rec.c')])
    v['h_one'] = build.link_harness(v, os.path.join(v['dir'], 'h_one'), [os.path.join(NATIVE, 'h_one.c'), os.path.join(NATIVE, 'seam.c')], extra_cflags=(['-DVERIF_HEAPTRACK'] if heaptrack else []),
                                    extra_ld=['-L' + os.path.dirname(rec), '-lrec', '-Wl,-rpath,' + os.path.dirname(rec)] + (['-Wl,--wrap=malloc,--wrap=calloc,--wrap=realloc,--wrap=free,--wrap=strdup,--wrap=strndup,--wrap=getline'] if heaptrack else []))
    return v


def run(sysx, workdir, prog_argv, opts=(), env=None, cwd=None, timeout=60, name='t', prefix=()):
    """returns parsed sysx report (dict) with extra keys: san (list of sanitizer reports)"""
    os.makedirs(workdir, exist_ok=True)
    outp = os.path.join(workdir, name + '.sysx.json')
    e = env if env is not None else H.san_env(workdir)
    try:
        r = sh(list(prefix) + [sysx, '-o', outp] + list(opts) + ['--'] + list(prog_argv), env=e, cwd=cwd or workdir, timeout=timeout, stdin=subprocess.DEVNULL)
    except subprocess.TimeoutExpired:
        return {'error': 'sysx timeout', 'calls': [], 'signals': [], 'exited': 0, 'exit_code': -1, 'term_sig': 0, 'blocked_call': -9, 'san': []}
    try:
        rep = json.load(open(outp))
    except Exception as ex:
        rep = {'error': 'bad report: %s' % ex, 'calls': [], 'signals': [], 'exited': 0, 'exit_code': -1, 'term_sig': 0, 'blocked_call': -9}
    rep['stdout'] = r.stdout.decode('latin-1')[-2000:]
    rep['stderr'] = r.stderr.decode('latin-1')[-2000:]
    rep['san'] = []
    for f in os.listdir(workdir):
        if f.startswith(('asan.', 'ubsan.')):
            p = os.path.join(workdir, f)
            rep['san'].append(open(p, errors='replace').read()[:2500])
            os.unlink(p)
    return rep


def build_h_ctty():
    """launcher that gives the traced command a controlling terminal (foreground, or background with TOSTOP)"""
    os.makedirs(AUX, exist_ok=True)
    out = os.path.join(AUX, 'h_ctty')
    r = sh(['gcc', '-O1', '-g', os.path.join(NATIVE, 'h_ctty.c'), '-o', out])
    if r.returncode:
        raise build.BuildError(r.stderr.decode()[:2000])
    return out


def build_h_bindself():
    os.makedirs(AUX, exist_ok=True)
    out = os.path.join(AUX, 'h_bindself')
    r = sh(['gcc', '-O1', '-g', os.path.join(NATIVE, 'h_bindself.c'), '-o', out])
    if r.returncode:
        raise build.BuildError(r.stderr.decode()[:2000])
    return out
