"""C20 - ld.so.preload is never left half-written.

Crash-point and write-failure enumeration on the real snoopyctl under the ptrace executor: the
un-faulted run is traced over the whole process life; then the process is SIGKILLed immediately
before and immediately after EVERY system call, every write-type call (write, fsync, rename, close,
ftruncate, fchmod, fchown, ...) is failed with ENOSPC / EIO / EDQUOT, and every write is torn (shortened to 1,
half, n-1 bytes and the process killed before it can continue).  After each run the preload file
must hold exactly the old or exactly the new complete content.
"""
import os, shutil, errno as E
from engine import sysx as X, build
from engine.common import pmap, CLEAN_ENV
from checks import cli_common as C

META = {
    'level': 'fault_enumeration',
    'technique': 'exhaustive crash-point (kill before/after every syscall), write-failure and torn-write enumeration on the real binary via ptrace',
    'text': 'For enable and disable over 9 initial file contents: kill at entry and exit of every system call of the whole process life, fail every write-type call with ENOSPC/EIO/EDQUOT, '
            'tear every write (1, half, n-1 bytes then kill). The file on disk must equal the complete previous or the complete new content after every run; it must never vanish.'
            ' Also: preload file as symlink / hard link / mount point / with leftover siblings, own entry sharing a line or indented, descriptors 0-2 closed, sparse files whose size does not fit an int.',
    'note': 'Process death at system-call boundaries and inside shortened writes; power loss with unsynced pages is not modelled. A stale temporary file next to the target is not judged.',
}

WRITE_TYPE = {'write', 'pwrite64', 'writev', 'fsync', 'fdatasync', 'rename', 'renameat', 'renameat2', 'close', 'ftruncate', 'truncate', 'fchmod', 'fchown', 'fchmodat', 'fchownat', 'link', 'unlink', 'unlinkat', 'openat', 'open', 'lseek', 'chmod', 'chown'}


def initial_contents(LIB):
    foreign = b'/usr/lib/libfoo.so\n'
    big = b''.join(b'/usr/lib/libforeign-%04d.so\n' % i for i in range(360))   # ~10 KB: more than one stdio buffer
    return {
        'absent': None, 'empty': b'', 'one_foreign': foreign, 'three_foreign_nonl': b'/a/liba.so\n# comment\n/b/libb.so',
        'big_foreign': big, 'own_first': LIB + b'\n' + foreign, 'own_middle': foreign + LIB + b'\n/z/libz.so\n', 'own_last_nonl': foreign + LIB,
        'big_with_own': big + LIB + b'\n' + big,
        # the own entry as a later token of a shared line / indented (the dynamic loader takes both)
        'own_shares_line': foreign + b'/a/liba.so ' + LIB + b' /b/libb.so # c\n/z/libz.so\n', 'own_indented_pct': b'# 100%s %n\n \t' + LIB + b'\n' + foreign,
    }


def run(ck):
    sx = X.build_sysx()
    hbind = X.build_h_bindself()     # the preload file as a mount point (bind-mounted single file): rename() onto it fails with EBUSY
    cli = build.build_cli('c20-cli', san='plain')
    libdir = os.path.join(ck.workdir, 'usr/lib')
    os.makedirs(libdir, exist_ok=True)
    LIBP = os.path.join(libdir, 'libsnoopy.so')
    open(LIBP, 'wb').close()
    LIB = LIBP.encode()
    contents = initial_contents(LIB)
    if ck.tier == 'quick':
        contents = {k: contents[k] for k in ('absent', 'one_foreign', 'three_foreign_nonl', 'big_foreign', 'own_middle', 'own_last_nonl', 'big_with_own', 'own_shares_line', 'own_indented_pct')}
    # the same contents with the preload file being a symbolic link, having a second hard link, or having leftover siblings
    # (ld.so.preload.bak / .old / ~ / .tmp from earlier tools or runs) next to it
    for base in ('one_foreign', 'own_middle', 'big_with_own'):
        for kind in ('symlink', 'hardlink', 'siblings', 'mountpoint'):
            contents['%s@%s' % (base, kind)] = contents[base]
    counter = [0]

    def one(args):
        cname, cmd, opts = args
        counter[0] += 1
        d = os.path.join(ck.workdir, 'r%d' % counter[0])
        shutil.rmtree(d, ignore_errors=True)
        os.makedirs(d)
        pf = os.path.join(d, 'ld.so.preload')
        kind = cname.split('@')[1] if '@' in cname else 'regular'
        if contents[cname] is not None:
            if kind == 'symlink':
                os.mkdir(os.path.join(d, 'real'))
                open(os.path.join(d, 'real', 'preload.real'), 'wb').write(contents[cname])
                os.symlink(os.path.join(d, 'real', 'preload.real'), pf)
            else:
                open(pf, 'wb').write(contents[cname])
            if kind == 'hardlink':
                os.link(pf, os.path.join(d, 'second-name-of-the-preload-file'))
            if kind == 'siblings':
                for sfx in ('.bak', '.old', '~', '.tmp', '.new'):
                    open(pf + sfx, 'wb').write(b'/stale/libstale.so\n')
        env = dict(CLEAN_ENV, SNOOPY_TEST_LD_SO_PRELOAD_PATH=pf, SNOOPY_TEST_LIBSNOOPY_SO_PATH=LIBP)
        rep = X.run(sx, d, [cli, cmd], opts=['--whole', '--maxcalls', '5000'] + list(opts), env=env, timeout=60, prefix=([hbind, pf, '--'] if kind == 'mountpoint' and contents[cname] is not None else []))
        try:
            after = open(pf, 'rb').read()
        except FileNotFoundError:
            after = None
        leftovers = [f for f in os.listdir(d) if f.startswith('ld.so.preload') and f != 'ld.so.preload']
        rep['after'] = after
        rep['leftovers'] = leftovers
        shutil.rmtree(d, ignore_errors=True)
        return rep
    evals = 0
    outcomes = set()
    samples = []
    base_jobs = [(c, cmd, []) for c in contents for cmd in ('enable', 'disable')]
    bases = pmap(one, base_jobs)
    jobs = []
    expect = {}
    for (c, cmd, _), rep in zip(base_jobs, bases):
        evals += 1
        new = rep['after']
        expect[(c, cmd)] = new
        if c.endswith('@mountpoint') and rep.get('exited') and new == contents[c]:
            pass      # rename() onto a mount point fails (EBUSY): refusing, with the file untouched, is the correct outcome; the faults below still apply
        elif not rep.get('exited') or rep.get('exit_code') not in (0,):
            ck.violation('C20:baseline_run_failed:%s:%s' % (cmd, c), {'report': {k: rep.get(k) for k in ('exit_code', 'term_sig', 'stderr')}})
            continue
        n = rep['ncalls']
        for k in range(n):
            jobs.append((c, cmd, ['--kill', '%d:entry' % k], 'kill@%d:entry' % k, None))
            jobs.append((c, cmd, ['--kill', '%d:exit' % k], 'kill@%d:exit' % k, None))
        for call in rep['calls']:
            if call['name'] in WRITE_TYPE:
                for e in (E.ENOSPC, E.EIO, E.EDQUOT):
                    jobs.append((c, cmd, ['--fail', '%d:%d' % (call['i'], e)], 'fail@%d(%s):%d' % (call['i'], call['name'], e), call))
            if call['name'] in ('write', 'pwrite64') and call.get('buf_len', 0) > 1 and call['a'][0] > 2:
                nb = call['buf_len']
                for sh_ in sorted(set([1, nb // 2, nb - 1])):
                    jobs.append((c, cmd, ['--short', '%d:%d' % (call['i'], sh_), '--kill', '%d:entry' % (call['i'] + 1)], 'torn@%d:%d/%d' % (call['i'], sh_, nb), call))
                    # a short write followed by a device that accepts nothing more (disk full / quota): every later write fails
                    for e in (E.ENOSPC, E.EDQUOT):
                        jobs.append((c, cmd, ['--short', '%d:%d' % (call['i'], sh_), '--failnr', '%d:%d:%d' % (call['i'] + 1, e, call['nr'])], 'shortthenfail@%d:%d/%d:%d' % (call['i'], sh_, nb, e), call))
    lvl1 = []
    for (c, cmd, _), rep in zip(base_jobs, bases):
        if (c, cmd) not in expect:
            continue
        for call in rep['calls']:
            if call['name'] in ('openat', 'open') and (call['a'][2] if call['name'] == 'openat' else call['a'][1]) & 0o100 and call.get('path', '').startswith(os.path.dirname(LIBP).rsplit('/usr', 1)[0]):
                for e in (E.EACCES, E.EROFS, E.ENOSPC):
                    lvl1.append((c, cmd, ['--fail', '%d:%d' % (call['i'], e)], call, e))
    for (c, cmd, o1, call, e), rep1 in zip(lvl1, pmap(lambda j: one(j[:3]), lvl1)):
        jobs.append((c, cmd, o1, 'fail@%d(%s):%d' % (call['i'], call['name'], e), call))
        n1 = rep1.get('ncalls', 0)
        for k in range(call['i'] + 1, n1):
            jobs.append((c, cmd, o1 + ['--kill', '%d:entry' % k], 'createfail%d+kill@%d:entry' % (e, k), call))
            jobs.append((c, cmd, o1 + ['--kill', '%d:exit' % k], 'createfail%d+kill@%d:exit' % (e, k), call))
        for c2 in rep1.get('calls', []):
            if c2['i'] > call['i'] and c2['name'] in ('write', 'pwrite64', 'writev', 'fsync', 'close', 'rename', 'ftruncate'):
                for e2 in (E.ENOSPC, E.EIO):
                    jobs.append((c, cmd, o1 + ['--failnr', '%d:%d:%d' % (c2['i'], e2, c2['nr'])], 'createfail%d+fail@%d(%s):%d' % (e, c2['i'], c2['name'], e2), c2))
    # second level after a failing NON-data call (rename, fsync, close, fchmod, fchown, unlink ...): the failure persists for every later
    # call of the same system call (a device that stays broken), and the process is killed at every boundary after a single failure
    # (whatever the error path does next - retry, fall back, clean up - must itself leave old or new content at every instant)
    lvl2 = []
    for (c, cmd, _), rep in zip(base_jobs, bases):
        if (c, cmd) not in expect:
            continue
        for call in rep['calls']:
            if call['name'] in WRITE_TYPE and call['name'] not in ('write', 'pwrite64', 'writev', 'openat', 'open', 'lseek'):
                for e in ((E.EIO,) if ck.tier == 'quick' else (E.EIO, E.ENOSPC, E.EDQUOT)):
                    jobs.append((c, cmd, ['--failfrom', '%d:%d' % (call['i'], e)], 'persistentfail@%d(%s):%d' % (call['i'], call['name'], e), call))
                    lvl2.append((c, cmd, ['--fail', '%d:%d' % (call['i'], e)], call, e))
    for (c, cmd, o1, call, e), rep1 in zip(lvl2, pmap(lambda j: one(j[:3]), lvl2)):
        for k in range(call['i'] + 1, rep1.get('ncalls', 0)):
            jobs.append((c, cmd, o1 + ['--kill', '%d:entry' % k], 'fail%d+kill@%d:entry' % (e, k), call))
            jobs.append((c, cmd, o1 + ['--kill', '%d:exit' % k], 'fail%d+kill@%d:exit' % (e, k), call))
    res = pmap(lambda j: one(j[:3]), jobs)
    for (c, cmd, opts, label, call), rep in zip(jobs, res):
        evals += 1
        old, new, after = contents[c], expect[(c, cmd)], rep['after']
        ok = (after == old) or (after == new) or (old is None and after is None)
        kind = label.split('@')[0]
        outcomes.add((c, cmd, kind, 'old' if after == old else 'new' if after == new else 'other'))
        if not ok:
            state = 'absent' if after is None else ('empty' if after == b'' else ('truncated_prefix_of_new' if new and new.startswith(after) else 'mixed'))
            where = 'call=%s' % (call['name'] if call else rep['calls'][-1]['name'] if rep.get('calls') else '?')
            ck.violation('C20:%s:%s:%s:%s:%s' % (state, cmd, c, kind, where),
                         {'command': cmd, 'initial': c, 'deviation': label, 'sysx_opts': opts, 'file_after': None if after is None else after[:300].decode('latin-1'), 'len_after': None if after is None else len(after),
                          'len_old': None if old is None else len(old), 'len_new': None if new is None else len(new), 'last_calls': [(x['name'], x.get('path')) for x in rep.get('calls', [])[-3:]]})
        if len(samples) < 5 and evals % 509 == 1:
            samples.append({'command': cmd, 'initial': c, 'deviation': label, 'file_is': 'old' if after == old else 'new' if after == new else 'other'})
    ck.assumptions += ['death at system-call boundaries / inside shortened writes; unsynced page loss on power failure not modelled']
    # files whose size does not fit an int (sparse; the last line is another library's entry)
    for label, hbad in C.huge_file_cases(ck, cli, LIB):
        if False:
            continue
        evals += 1
        outcomes.add(('huge', label, tuple(hbad)))
        if hbad:
            ck.violation('C20:%s:%s' % ('+'.join(hbad), label), {'case': label, 'failed': hbad})
    ck.coverage(evaluations=evals, distinct_nontrivial=len(outcomes), states=len(outcomes), transitions=evals, traces_validated_against_impl=evals,
                rule='(initial content, command) x {kill before/after each syscall of the whole life, ENOSPC/EIO/EDQUOT on each write-type call, torn writes}; distinct = (content, command, deviation kind, file is old/new/other)',
                syscalls_per_run={'%s/%s' % (c, cmd): r.get('ncalls') for (c, cmd, _), r in zip(base_jobs, bases)}, samples=samples or [{'note': 'none'}])
