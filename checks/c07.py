"""C07 - filter chain is a conjunction; a drop silences the call.

Every chain of <= 3 elements over a 17-element alphabet x 4 separator styles x 6 process states
(real uid x stdin kind), plus single drops at every position of chains of up to 20 elements and
long arguments, on the production wrapper; decision must equal the conjunction of the measured
single-element decisions, and a drop must leave every sink untouched while the exec proceeds.
"""
import itertools, os
from engine import harness as H
from engine.common import pmap

META = {
    'level': 'model_checking',
    'technique': 'exhaustive enumeration of filter chains (<=3 elements x separator styles x process states, single drop at every position up to length 20) against a conjunction truth table',
    'text': 'All chains of up to 3 elements over known/unknown/empty filter specs with 4 separator styles are executed in 6 real process states (uid 0/1000/54321 x stdin pty/pipe) '
            'through configuration file -> production wrapper; logged? must equal the AND of the single-element decisions (measured, and cross-checked against uid/tty/ancestor facts), '
            'which implies order- and repetition-invariance; on drop every sink stays empty and the recorder is reached once with the scripted result.',
    'note': 'Single-element decisions are measured on the same code, then cross-checked against an independent reference (uid equality, isatty, parent name); C14/C15 check those filters in depth.',
}

SINKS = ('log', 'log2', 'stdout', 'stderr', 'tty', 'sock', 'devlog')
PARENT = open('/proc/self/comm', 'rb').read().strip()   # kernel name of the process that spawns the harness (an ancestor of every call)


def elements(uid):
    other = 7 if uid != 7 else 8
    return {
        'noop': (b'noop', True),
        'only_root': (b'only_root', uid == 0),
        'only_uid:me': (b'only_uid:%d' % uid, True),
        'only_uid:other': (b'only_uid:%d' % other, False),
        'exclude_uid:me': (b'exclude_uid:%d' % uid, False),
        'exclude_uid:other': (b'exclude_uid:%d' % other, True),
        'only_tty': (b'only_tty', None),          # depends on stdin kind
        'xso:parent': (b'exclude_spawns_of:' + PARENT, False),        # the harness's real parent: this very interpreter
        'xso:zz': (b'exclude_spawns_of:zz', True),
        'xso:colon': (b'exclude_spawns_of:qq,job:runner', False),   # the argument itself contains ':'; the harness runs below a process named job:runner
        'xso:colonmiss': (b'exclude_spawns_of:job:runnerx', True),
        'only_uid:bare': (b'only_uid', False),           # argument-taking filters written without an argument: empty list
        'exclude_uid:bare': (b'exclude_uid', True),
        'nosuch40:arg': (b'nosuchfilter_with_a_name_of_forty_bytes_:%d' % uid, True),
        'nosuch': (b'nosuch', True),
        'nosuch:arg': (b'nosuch:arg', True),
        # blanks that belong to the argument: an ancestor of the harness is named " lead" (with the blank)
        'xso:leading_blank_name': (b'exclude_spawns_of: lead', False),
        'xso:same_without_blank': (b'exclude_spawns_of:lead', True),
        'only_uid:blanks': (b'only_uid:7 ,%d' % uid, True),            # blanks inside the argument: the list still contains the uid
        'exclude_uid:blanks': (b'exclude_uid:5, %d ,9' % uid, False),
        'empty': (b'', True),
    }


def style(parts, st):
    s = b';'.join(parts)
    if st == 'plain':
        return s
    if st == 'trailing':
        return s + b';'
    if st == 'doubled':
        return b';;'.join(parts)
    return b';' + s


def chains(tier, uid, tty):
    E = elements(uid)
    names = list(E)
    out = []
    maxn = 3
    # (the four blank-related elements take part in chains of <= 2 elements only: the cube would grow by 70 % for no new interaction)
    pairs_only = ('xso:leading_blank_name', 'xso:same_without_blank', 'only_uid:blanks', 'exclude_uid:blanks')
    for n in range(1, maxn + 1):
        for combo in itertools.product(names if n <= 2 else [x for x in names if x not in pairs_only], repeat=n):
            for st in ('plain', 'trailing', 'doubled', 'leading'):
                out.append((combo, st, style([E[c][0] for c in combo], st)))
    if tier == 'thorough':
        red = ['noop', 'only_root', 'only_uid:other', 'exclude_uid:me', 'exclude_uid:other', 'only_tty', 'xso:colon', 'nosuch:arg', 'empty']
        for combo in itertools.product(red, repeat=4):
            out.append((combo, 'plain', style([E[c][0] for c in combo], 'plain')))
    # single drop at every position of chains p^i d p^j, i+j <= 19
    P, D = b'only_uid:%d' % uid, b'exclude_uid:%d' % uid
    for total in ((5, 12, 20) if tier == 'quick' else range(2, 21)):
        for i in range(total):
            parts = [P] * i + [D] + [P] * (total - 1 - i)
            out.append((('p',) * i + ('exclude_uid:me',) + ('p',) * (total - 1 - i), 'long%d' % total, b';'.join(parts)))
        out.append((('p',) * total, 'long%d' % total, b';'.join([P] * total)))
    # long arguments (up to the config line limit)
    for L in (200, 900):
        big = b','.join([b'%d' % (100000 + k) for k in range(L // 7)])
        out.append((('only_uid:other',), 'longarg%d' % L, b'only_uid:' + big))
        out.append((('only_uid:me',), 'longarg%d' % L, b'only_uid:' + big + b',%d' % uid))
        out.append((('exclude_uid:other', 'noop'), 'longarg%d' % L, b'exclude_uid:' + big + b';noop'))
    return E, out


def expected(E, combo, tty):
    v = True
    for c in combo:
        if c == 'p':
            continue
        t = E[c][1]
        if c == 'only_tty':
            t = tty
        v = v and t
    return v


# (name, lines before filter_chain, lines after it).  With error logging on, a passing call may add separate error records; a dropped
# call must stay silent all the same.  Unparsable lines elsewhere in the file do not switch filtering off (every good line applies).
SURROUNDINGS = [
    ('errlog_overflow', b'error_logging = yes\nlog_message_max_length = 255\nmessage_format = ' + b'L' * 300 + b'\n', b''),
    ('errlog_raising_format', b'error_logging = yes\nmessage_format = %{nosuchds}%{failure}M%{\n', b''),
    ('junk_line_before', b'message_format = M\nthis line has no separator\n', b''),
    ('junk_line_after', b'message_format = M\n', b'this line has no separator\n'),
    ('unterminated_section_after', b'message_format = M\n', b'[unterminated\n'),
    ('overlong_comment_after', b'message_format = M\n', b'# ' + b'c' * 1100 + b'\n'),
    ('overlong_comment_before', b'# ' + b'c' * 1100 + b'\nmessage_format = M\n', b''),
    ('other_section_after', b'message_format = M\n', b'[other]\nfilter_chain = noop\n'),
]


def run_state(args):
    h, uid, stdin, tier, w = args[:5]
    compiled_in = len(args) > 5 and args[5]
    tty = stdin == 'pty'
    E, ch = chains(tier, uid, tty)
    os.makedirs(w, exist_ok=True)
    lines = ['forkname ' + H.hx(b' lead'), 'forkname ' + H.hx(b'job:runner'), 'sinks pipe', 'stdin ' + stdin]
    if uid == 1000:
        lines.append('errno 34')       # the caller's ambient errno (ERANGE) must not influence any filter decision
    if uid != 0:
        lines.append('setresuid %d 0 0' % uid)   # real uid differs from effective: filters must use the REAL uid
    if compiled_in:
        # build without configuration file: message format, chain and output are the compiled-in ones (variables of native/seam.c)
        ch = [c for c in ch if len(c[0]) <= 2 or c[1].startswith('long')]
        lines += ['defformat ' + H.hx(b'M'), 'defoutput ' + H.hx(b'file'), 'defoutarg ' + H.hx(b'log')]
        for combo, st, text in ch:
            lines += ['resetsinks', 'defchain ' + H.hx(text), 'call execve %s [h61] [] -1 13' % H.hx(b'/x')]
        r = H.run_script(h, w, '\n'.join(lines), env_extra={'VERIF_HEXMAX': '64'}, timeout=900)
        return r, E, ch, tty
    # the same chains inside other configuration surroundings: the decision and the silence of a drop must not depend on them
    short = [c for c in ch if c[1] == 'plain' and len(c[0]) <= 2]
    for sname, pre, post in SURROUNDINGS:
        ch = ch + [(combo, 'in:' + sname, text, pre, post) for combo, st, text in short]
    for c in ch:
        combo, st, text = c[:3]
        if len(c) == 5:
            cfg = b'[snoopy]\n' + c[3] + b'output = file:log\nfilter_chain=' + text + b'\n' + c[4]
        else:
            cfg = b'[snoopy]\nmessage_format = M\noutput = file:log\nfilter_chain=' + text + b'\n'
        lines += ['resetsinks', 'cfg ' + H.hx(cfg), 'call execve %s [h61] [] -1 13' % H.hx(b'/x')]
    ch = [c[:3] for c in ch]
    r = H.run_script(h, w, '\n'.join(lines), env_extra={'VERIF_HEXMAX': '64'}, timeout=900)
    return r, E, ch, tty


def run(ck):
    v = H.build_exec_harness('c07-ts-asan')
    states = [(uid, stdin) for uid in (0, 1000, 54321) for stdin in ('pty', 'pipe')]
    jobs = [(v['h_exec'], uid, stdin, ck.tier, os.path.join(ck.workdir, 's%d-%s' % (uid, stdin))) for uid, stdin in states]
    # the compiled-in route (./configure --disable-config-file --with-filter-chain=...): every <= 2-element chain and the long single-drop chains
    vci = H.build_exec_harness('c07ci-ts-asan', compiled_in=True)
    jobs += [(vci['h_exec'], uid, stdin, ck.tier, os.path.join(ck.workdir, 'ci%d-%s' % (uid, stdin)), True) for uid, stdin in ((0, 'pty'), (1000, 'pipe'), (54321, 'pty'))]
    res = pmap(run_state, jobs)
    evals = 0
    outcomes = set()
    samples = []
    for job, (r, E, ch, tty) in zip(jobs, res):
        h, uid, stdin, tier, w = job[:5]
        calls = [l for l in r['lines'] if 'call' in l]
        tag = 'uid=%d:stdin=%s' % (uid, stdin) + (':compiled_in' if len(job) > 5 else '')
        if not r['done']:
            c = ch[len(calls)] if len(calls) < len(ch) else None
            ck.violation('C07:abort:%s:chain=%s' % (tag, c[2][:80].decode() if c else '?'), {'state': tag, 'chain': c[2].decode() if c else None, 'rc': r['rc'], 'sanitizer': r['san'][:1], 'stderr': r['stderr'][-400:]})
        single = {}
        for (combo, st, text), j in zip(ch, calls):
            evals += 1
            loose = st.startswith('in:errlog')        # error records may accompany the record of a PASSING call
            logged = H.sink_is(j['at_entry']['log'], b'M\n') if not loose else j['at_entry']['log']['len'] > 0
            untouched = all(j['after'][s]['len'] == 0 for s in SINKS)
            want = expected(E, combo, tty)
            bad = []
            if len(combo) == 1 and st == 'plain':
                single[combo[0]] = logged
            if logged != want:
                bad.append('decision=%s_expected=%s' % ('log' if logged else 'drop', 'log' if want else 'drop'))
            if not logged and not untouched:
                bad.append('drop_not_silent')
            if logged and not loose and not (H.sink_is(j['after']['log'], b'M\n') and all(j['after'][s]['len'] == 0 for s in SINKS if s != 'log')):
                bad.append('extra_output')
            if j['rec_calls'] != 1 or j['ret'] != -1 or j['errno'] != 13:
                bad.append('exec_passthrough')
            outcomes.add((tag, combo if len(combo) <= 3 else st, st if st.startswith('in:') else '', logged))
            if bad:
                ck.violation('C07:%s:%s%s:chain=%s' % ('+'.join(bad), tag, (':' + st) if st.startswith('in:') else '', text[:90].decode()), {'state': tag, 'chain': text.decode(), 'elements': list(combo) if len(combo) < 8 else st, 'failed': bad})
            if len(samples) < 5 and evals % 2003 == 7:
                samples.append({'state': tag, 'chain': text[:100].decode(), 'logged': logged})
    ck.coverage(states=len(outcomes), transitions=evals, traces_validated_against_impl=evals, evaluations=evals, distinct_nontrivial=len(outcomes),
                rule='all chains of <=3 elements over 17 specs x 4 separator styles, single-drop chains up to 20 elements, long arguments, in 6 process states; distinct = (state, chain elements, decision)',
                process_states=len(states), samples=samples or [{'note': 'none'}])
