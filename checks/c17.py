"""C17 - file records are appended whole; concurrent writers never interleave.

Step 1 (per record): one wrapped call is traced (ptrace) for EVERY record size 1..N and 2^k+-1 up to 1 MiB, through the
file and devnull outputs, with several pre-existing contents: the destination must be opened once with O_APPEND and without
O_TRUNC and receive exactly ONE write-type call whose buffer is the whole record plus newline.
Step 2 (interleavings): W real writer processes run under the serialising executor; every open/write/close/lseek/fstat on
the log file is a scheduling point and ALL interleavings are executed on the real kernel and file, for one
representative size of each distinct call pattern found in step 1 and sizes straddling every pattern change.
After every schedule the file must be the old content followed by a permutation of the whole records; no step may
shrink it or change an earlier byte.
"""
import os, itertools, json, shutil
from engine import sysx as X, harness as H
from engine.common import pmap, sh, CLEAN_ENV

META = {
    'level': 'model_checking',
    'technique': 'system-call-granular exhaustive interleaving of real writer processes on a real file (serialising ptrace executor) + per-size trace of the append call pattern',
    'text': 'Every record size in the bound is traced: exactly one write on an O_APPEND, non-truncating descriptor carrying the whole record + newline. All interleavings of 2 (quick) / 3 (thorough) writers at '
            'system-call granularity are executed for each call pattern and at each pattern boundary; the file must always be old content + a permutation of whole records.'
            ' The blocking mode of the descriptor is followed through open flags and fcntl and judged at write time.',
    'note': 'Trusted: one write(2)/writev(2) on an O_APPEND descriptor of a regular local file is atomic with respect to other appends (POSIX/Linux). Writers are processes; threads of one process are covered by C09\'s schedules.',
}
O_APPEND, O_TRUNC, O_NONBLOCK = 0o2000, 0o1000, 0o4000
WRITES = ('write', 'writev', 'pwrite64', 'pwritev', 'sendto')


def sizes(tier):
    s = set(range(1, 9001 if tier == 'quick' else 70001))
    for k in range(0, 21):
        for d in (-1, 0, 1, 2):
            if 0 < 2 ** k + d <= 1048575:      # the maximum configurable message length
                s.add(2 ** k + d)
    s.add(1048575)
    return sorted(s)


def run(ck):
    sx, sxs = X.build_sysx(), X.build_sysxs()
    v = X.build_h_one('c17-ts-plain', san='plain')
    cnt = [0]

    def solo(args):
        n, out, pre = args[:3]
        amb = args[3] if len(args) > 3 else 0
        fsize = args[4] if len(args) > 4 else None
        cnt[0] += 1
        w = os.path.join(ck.workdir, 'a%d' % (cnt[0] % 4096))
        shutil.rmtree(w, ignore_errors=True)
        os.makedirs(w)
        target = os.path.join(w, 'log') if out == 'file' else ('/dev/stdout' if out == 'devstdout' else '/dev/null')
        open(os.path.join(w, 'snoopy.ini'), 'w').write('[snoopy]\nmessage_format = %%{env:M}\ndatasource_message_max_length = 1048575\nlog_message_max_length = 1048575\noutput = %s\n' % ('file:' + target if out in ('file', 'devstdout') else 'devnull'))
        if pre is not None and out == 'file':
            open(target, 'wb').write(pre)
        rep = X.run(sx, w, [v['h_one'], os.path.join(w, 'snoopy.ini'), os.path.join(w, 'res.json'), '0', '1', '-', str(n)], env=dict(CLEAN_ENV, VERIF_AMBIENT_ERRNO=str(amb), **({'VERIF_RLIMIT_FSIZE': str(fsize)} if fsize is not None else {})), timeout=60)
        after = open(target, 'rb').read() if out == 'file' and os.path.exists(target) else None
        calls = rep.get('calls', [])
        fds = []
        pattern = []
        opens = []
        writes = []
        nonblock = {}        # descriptor -> is its open file description in non-blocking mode right now (open flags, then fcntl F_SETFL)
        for c in calls:
            if c['name'] in ('openat', 'open') and c.get('path') == target:
                opens.append(c)
                if isinstance(c.get('ret'), int) and c['ret'] >= 0:
                    fds.append(c['ret'])
                    nonblock[c['ret']] = bool((c['a'][2] if c['name'] == 'openat' else c['a'][1]) & O_NONBLOCK)
                pattern.append('openat')
            elif c['name'] == 'fcntl' and c['a'][0] in fds and c['a'][1] == 4 and isinstance(c.get('ret'), int) and c['ret'] == 0:      # F_SETFL
                nonblock[c['a'][0]] = bool(c['a'][2] & O_NONBLOCK)
            elif c['name'] in WRITES and c['a'][0] in fds and nonblock.get(c['a'][0]):
                c['nonblocking_write'] = True
                pattern.append(c['name'])
                writes.append(c)
            elif c['name'] in WRITES + ('close', 'lseek', 'ftruncate', 'fsync') and c['a'][0] in fds:
                pattern.append(c['name'])
                if c['name'] in WRITES:
                    writes.append(c)
                if c['name'] == 'close':
                    fds.remove(c['a'][0])
        # closes that hit nothing (second half of a double close: in a threaded caller the number may already belong to someone else), and
        # a log descriptor still open when the real exec is reached
        rep['bad_closes'] = [c['a'][0] for c in calls if c['name'] == 'close' and isinstance(c.get('ret'), int) and c['ret'] < 0]
        rep['left_open'] = list(fds)
        rep['ambient_errno'] = amb
        rep['fsize'] = fsize
        shutil.rmtree(w, ignore_errors=True)
        return n, out, pre, opens, writes, tuple(pattern), after, rep
    evals = 0
    outcomes = set()
    samples = []
    patterns = {}
    S = sizes(ck.tier)
    jobs = [(n, 'file', None) for n in S]
    pres = [b'one line\n', b'bytes without final newline', b'x' * 5000 + b'\n']
    for n in (1, 100, 4095, 4096, 4097, 8192, 65536):
        for p in pres:
            jobs.append((n, 'file', p))
    for n in (1, 4095, 4096, 8193, 70000):
        jobs.append((n, 'devnull', None))
    # the caller's ambient errno (left by ITS earlier system calls) must not change how the record is appended
    for amb in (4, 11, 28, 32):
        for n in (1, 4096, 70000):
            jobs.append((n, 'file', None, amb))
            jobs.append((n, 'file', pres[0], amb))
    # the caller's file size limit cuts the append short: what is in the file stays there, nothing is taken back or repositioned
    for n, pre, lim in ((100, b'x' * 4000, 4050), (100, b'x' * 4000, 4000), (5000, b'', 4096), (100, b'x' * 4000, 4101)):
        jobs.append((n, 'file', pre, 0, lim))
    # a path below /dev that is not a device: /dev/stdout (whatever the caller's stdout is - here a pipe)
    for n in (1, 4096, 70000):
        jobs.append((n, 'devstdout', None))
    for n, out, pre, opens, writes, pattern, after, rep in pmap(solo, jobs):
        evals += 1
        bad = []
        if not rep.get('exited') or rep.get('exit_code') != 0:
            bad.append('run_failed')
        if len(opens) != 1:
            bad.append('opened_%d_times' % len(opens))
        else:
            fl = opens[0]['a'][2] if opens[0]['name'] == 'openat' else opens[0]['a'][1]
            if not fl & O_APPEND:
                bad.append('not_opened_for_appending')
            if fl & O_TRUNC:
                bad.append('opened_with_O_TRUNC')
        if any(w_.get('nonblocking_write') for w_ in writes):
            bad.append('record_written_in_non_blocking_mode')     # on a tty or FIFO destination a non-blocking append may be cut short: not one indivisible append
        if any(x in pattern for x in ('ftruncate', 'lseek')):
            bad.append('log_file_shortened_or_repositioned')
        if rep.get('bad_closes'):
            bad.append('closed_a_descriptor_that_was_not_open')
        if rep.get('left_open'):
            bad.append('log_descriptor_still_open_at_exec')
        if len(writes) != 1:
            bad.append('record_leaves_in_%d_writes' % len(writes))
        elif writes[0].get('buf_len') != n + 1 or not writes[0].get('buf_ends_nl'):
            bad.append('single_write_is_not_the_whole_record')
        if out == 'file':
            want = (pre or b'') + b'm' * n + b'\n'
            if rep.get('fsize') is not None:
                want = want[:max(rep['fsize'], len(pre or b''))]
            if after != want:
                bad.append('file_content_wrong')
        patterns.setdefault((out, pattern), []).append(n)
        outcomes.add((out, pattern, pre is not None, tuple(bad)))
        if bad:
            # signature groups sizes by their call pattern, not by the individual size
            ck.violation('C17:%s:output=%s:pattern=%s%s' % ('+'.join(bad), out, '>'.join(pattern), (':ambient_errno=%d' % rep['ambient_errno']) if rep.get('ambient_errno') else ''), {'record_size': n, 'ambient_errno': rep.get('ambient_errno'), 'output': out, 'pre_existing': None if pre is None else len(pre), 'pattern': pattern, 'failed': bad,
                         'writes': [(w_.get('buf_len'), w_.get('buf_ends_nl')) for w_ in writes]})
    for (out, pat), ns in patterns.items():
        samples.append({'output': out, 'pattern': '>'.join(pat), 'sizes': '%d..%d (%d sizes)' % (min(ns), max(ns), len(ns))})
    # ---- step 2: all interleavings
    reps = set()
    filepats = sorted((min(ns), max(ns)) for (out, pat), ns in patterns.items() if out == 'file')
    for lo, hi in filepats:
        reps.update([lo, hi])
    reps.update([1, 4095, 4096, 4097])
    reps = sorted(r for r in reps if r <= 70000)
    W = 2
    nsched = 0

    def sched_run(args):
        n, pre, sched, k = args[:4]
        absent_dir = len(args) > 4 and args[4]
        cnt[0] += 1
        w = os.path.join(ck.workdir, 'i%d' % (cnt[0] % 4096))
        shutil.rmtree(w, ignore_errors=True)
        os.makedirs(w)
        target = os.path.join(w, 'log') if not absent_dir else os.path.join(w, 'no-such-dir-yet', 'log')
        open(os.path.join(w, 'snoopy.ini'), 'w').write('[snoopy]\nmessage_format = %%{env:M}\ndatasource_message_max_length = 1048575\nlog_message_max_length = 1048575\noutput = file:%s\n' % target)
        if pre is not None:
            open(target, 'wb').write(pre)
        cmd = [sxs, '-o', os.path.join(w, 's.json'), '-p', target, '-s', ','.join(map(str, sched)), '--']
        for i in range(k):
            if i:
                cmd.append('---')
            cmd += [v['h_one'], os.path.join(w, 'snoopy.ini'), os.path.join(w, 'res%d.json' % i), '0', '1', '-', str(n), 'ABC'[i]]
        sh(cmd, env=dict(CLEAN_ENV), timeout=120)
        try:
            rep = json.load(open(os.path.join(w, 's.json')))
        except Exception as e:
            rep = {'error': str(e)}
        after = open(target, 'rb').read() if os.path.exists(target) else None
        shutil.rmtree(w, ignore_errors=True)
        return rep, after
    for n in reps:
        for pre in (None, b'old line\n'):
            for k in ((2,) if ck.tier == 'quick' else (2, 3)):
                if ck.out_of_time():
                    break
                if k == 3 and n not in (1, 4096):
                    continue
                base, _ = sched_run((n, pre, [], 1))
                npts = base.get('nsteps', 0)
                if not npts:
                    ck.violation('C17:harness:no_points:n=%d' % n, {'report': base})
                    continue
                if k == 3 and npts > 4:
                    continue
                # all merges of k sequences of npts points each
                scheds = set(itertools.permutations([i for i in range(k) for _ in range(npts)])) if npts * k <= 9 else None
                if scheds is None:
                    # enumerate merges without materialising permutations of equal elements
                    def merges(counts):
                        if not any(counts):
                            yield ()
                            return
                        for i, c in enumerate(counts):
                            if c:
                                cc = list(counts)
                                cc[i] -= 1
                                for rest in merges(tuple(cc)):
                                    yield (i,) + rest
                    scheds = list(merges(tuple([npts] * k)))
                scheds = sorted(scheds)
                for sched, (rep, after) in zip(scheds, pmap(lambda s: sched_run((n, pre, list(s), k)), scheds)):
                    evals += 1
                    nsched += 1
                    bad = []
                    if rep.get('error') or rep.get('diverged'):
                        ck.violation('C17:harness:schedule_diverged:n=%d' % n, {'schedule': sched, 'report': rep})
                        continue
                    if rep['shrunk']:
                        bad.append('file_shrank')
                    if rep['earlier_bytes_changed']:
                        bad.append('earlier_bytes_overwritten')
                    recs = [c.encode() * n + b'\n' for c in 'ABC'[:k]]
                    ok = after is not None and any(after == (pre or b'') + b''.join(p) for p in itertools.permutations(recs))
                    if not ok:
                        bad.append('records_interleaved_or_lost')
                    outcomes.add(('sched', n, pre is not None, k, tuple(bad), after[:1 + len(pre or b'')] if after else None))
                    if bad:
                        ck.violation('C17:%s:writers=%d:points_per_writer=%d' % ('+'.join(bad), k, npts), {'record_size': n, 'writers': k, 'schedule': sched, 'steps': rep.get('steps'), 'failed': bad,
                                     'file_len': None if after is None else len(after), 'replay': 'sysxs -s %s' % ','.join(map(str, sched))})
    # the log directory does not exist yet: whatever the writers do about it, the file they leave behind must not depend on how their system
    # calls interleave (sequential = concurrent, as a multiset of records)
    for n in (1, 5000):
        base, _ = sched_run((n, None, [], 1, True))
        npts = base.get('nsteps', 0)
        if not npts or npts > 6:
            continue
        scheds = sorted(set(itertools.permutations([i for i in range(2) for _ in range(npts)])))
        results = pmap(lambda s: sched_run((n, None, list(s), 2, True)), scheds)
        def multiset(after):
            return None if after is None else tuple(sorted(after.split(b'\n')))
        ref = multiset(results[0][1])     # first schedule = writer 0 completely, then writer 1
        for sched, (rep, after) in zip(scheds, results):
            evals += 1
            nsched += 1
            if rep.get('error'):
                ck.violation('C17:harness:absent_dir:n=%d' % n, {'schedule': sched, 'report': rep})
                continue
            # (a writer that takes fewer steps than planned because of what the other one did is no harness problem here: the result is judged)
            outcomes.add(('absent_dir', n, multiset(after) == ref, after is None))
            if multiset(after) != ref:
                ck.violation('C17:records_lost_depending_on_schedule:log_directory_absent:points_per_writer=%d' % npts, {'record_size': n, 'schedule': sched, 'steps': rep.get('steps'),
                             'sequential_result_len': None if results[0][1] is None else len(results[0][1]), 'this_result_len': None if after is None else len(after)})
    ck.assumptions += ['atomicity of one write/writev on an O_APPEND descriptor of a local regular file is trusted (POSIX/Linux)']
    ck.coverage(states=len(outcomes), transitions=evals, traces_validated_against_impl=evals, evaluations=evals, distinct_nontrivial=len(outcomes), record_sizes_traced=len(jobs), schedules_executed=nsched,
                call_patterns=[{'output': o, 'pattern': '>'.join(p), 'min': min(ns), 'max': max(ns)} for (o, p), ns in patterns.items()],
                rule='every record size traced; all merges of the writers\' file-related system calls executed; distinct = (output, call pattern, verdict) and (size, writers, verdict, first record)', samples=samples[:6] or [{'note': 'none'}])
