"""C18 - snoopyctl enable adds exactly one entry and preserves the file.

All ld.so.preload contents of <= 3 (quick) / <= 4 reduced (thorough) lines over a 22-line alphabet, with and
without final newline, plus absent/empty, run through the real snoopyctl (built from the tree, ASan):
enable, enable;enable, status after enable.  Oracle taken directly from the statement.
"""
from checks import cli_common as C

META = {
    'level': 'model_checking',
    'technique': 'exhaustive enumeration of all preload files up to a line bound over a line alphabet, real snoopyctl, reference predicate from the statement',
    'text': 'Every file of the bounded grammar (own entry with trailing blank/tab/comment/CR, foreign entries, other libsnoopy.so paths, prefix/suffix paths, comments mentioning the library once or twice, '
            'blank lines, %-sequences, with and without final newline) is fed to the real `snoopyctl enable`; the result must be byte-identical or old+[newline]+entry+newline, refusals only when an '
            'active line mentions another libsnoopy.so, comments never count, enable is idempotent and `status` then reports the entry.'
            ' The own entry counts wherever the dynamic loader takes it (indented, after or between other libraries); sparse files of 2^31-1..2^33 bytes; descriptors 0-2 closed.',
    'note': 'Indented comment lines and mentions inside the trailing comment of another entry are in the alphabet and count as dead text (what the dynamic loader does with them).',
}


def judge(old, steps, LIB):
    """steps: results of e, e, s"""
    bad = []
    (rc1, new1, _), (rc2, new2, _), (rc3, new3, ok3) = steps
    oldc = old or b''
    own = any(C.own_entry_line(l, LIB) for l in C.lines_of(oldc))
    foreign = [l for l in C.active_mentions(oldc) if not C.own_entry_line(l, LIB)]
    appended = oldc + (b'\n' if oldc and not oldc.endswith(b'\n') else b'') + LIB + b'\n'
    same = (new1 == old) or (old is None and new1 is None)
    if rc1 >= 98 and rc1 != 127:
        bad.append('crash_rc%d' % rc1)
    if not same and new1 != appended:
        bad.append('content_neither_identical_nor_appended')
    if rc1 != 0 and not same:
        bad.append('refused_but_modified')
    if rc1 != 0 and not foreign and not (own and len(C.active_mentions(oldc)) >= 2):
        bad.append('refused_without_foreign_active_mention')
    if rc1 == 0 and same and not own:
        bad.append('unchanged_although_own_entry_not_active')
    if not own and not foreign and not (rc1 == 0 and new1 == appended):
        bad.append('entry_not_appended_although_no_active_mention')
    if own and not same:
        bad.append('modified_although_already_enabled')
    if foreign and not own and not (rc1 != 0 and same):
        bad.append('not_refused_although_foreign_active_mention')
    # idempotence
    if new2 != new1:
        bad.append('enable_twice_differs_from_once')
    # status after a successful enable
    # (`status` aborts with 'Multiple Snoopy references' when several active lines mention a libsnoopy.so: an `enable` that reports
    #  success - "already enabled" - on such a file breaks the statement's last clause; a refusal does not)
    if rc1 == 0 and not ok3:
        bad.append('status_does_not_report_enabled')
    if new3 != new2:
        bad.append('status_modified_file')
    return bad


def run(ck):
    cli, hcli, LIB = C.setup(ck)
    fs = C.files(LIB, 3 if ck.tier == 'thorough' else 2)
    if ck.tier == 'thorough':
        pass
    # 3-line files over a reduced alphabet in quick (full 3-line in thorough)
    if ck.tier == 'quick':
        A = C.line_alphabet(LIB)
        red = [A[i] for i in (0, 3, 5, 7, 8, 11, 12, 13, 14, 15)]
        import itertools
        seen = set(fs)
        for combo in itertools.product(red, repeat=3):
            for f in (b'\n'.join(combo) + b'\n', b'\n'.join(combo)):
                if f not in seen:
                    seen.add(f)
                    fs.append(f)
    if ck.tier == 'thorough':
        # 4-line files over a reduced alphabet (own entry in its variants, a foreign library, foreign snoopy, comments, blank)
        import itertools as _it
        A4 = C.line_alphabet(LIB)
        red4 = [A4[i] for i in (0, 3, 5, 7, 8, 12, 13, 14)]
        seen4 = set(fs)
        for combo in _it.product(red4, repeat=4):
            for f in (b'\n'.join(combo) + b'\n', b'\n'.join(combo)):
                if f not in seen4:
                    seen4.add(f)
                    fs.append(f)
    cases = [(f, 'ees') for f in fs]
    # caller state: the same command started with descriptors 0, 1, 2 closed must do exactly the same to the file (differential)
    nplain = len(cases)
    sub = fs if ck.tier == 'thorough' else [f for f in fs if f is None or f.count(b'\n') + (0 if f.endswith(b'\n') or not f else 1) <= 2]
    cases += [(f, 'EeS') for f in sub]
    res = C.run_batch(ck, cli, hcli, LIB, cases, 'c18')
    evals = 0
    outcomes = set()
    samples = []
    if len(res) != len(cases):
        ck.violation('C18:harness:batch_incomplete', {'got': len(res), 'want': len(cases)})
    plain_first = {}
    for idx, ((f, seq), steps) in enumerate(zip(cases, res)):
        if seq == 'EeS':
            evals += 3
            if len(steps) != 3:
                ck.violation('C18:harness:steps', {'file': repr(f)})
                continue
            want = plain_first.get(f)
            got = (steps[0][0], steps[0][1])
            outcomes.add(('fds_closed', got[0], got[1] == f, want == got))
            if want is not None and got != want:
                ck.violation('C18:enable_depends_on_std_descriptors:file=%r' % ((f or b'(absent)').replace(LIB, b'LIB')[:80],),
                             {'file': None if f is None else f.decode('latin-1'), 'with_fds_0_1_2_closed': {'rc': got[0], 'after': None if got[1] is None else got[1].decode('latin-1')},
                              'normally': {'rc': want[0], 'after': None if want[1] is None else want[1].decode('latin-1')}})
            if steps[2][1] != steps[1][1]:
                ck.violation('C18:status_modified_file:fds_closed:file=%r' % ((f or b'(absent)').replace(LIB, b'LIB')[:80],), {'file': repr(f)})
            continue
        if len(steps) == 3:
            plain_first[f] = (steps[0][0], steps[0][1])
        evals += 3
        if len(steps) != 3:
            ck.violation('C18:harness:steps', {'file': repr(f)})
            continue
        bad = judge(f, steps, LIB)
        outcomes.add((steps[0][0], steps[0][1] == f, steps[2][2], len(C.active_mentions(f or b'')), f is None, (f or b'').endswith(b'\n'), tuple(bad)))
        if bad:
            ck.violation('C18:%s:file=%r' % ('+'.join(bad), (f or b'(absent)').replace(LIB, b'LIB')[:80]),
                         {'file': None if f is None else f.decode('latin-1'), 'LIB': LIB.decode(), 'enable_rc': steps[0][0], 'after_enable': None if steps[0][1] is None else steps[0][1].decode('latin-1'), 'failed': bad})
        if len(samples) < 5 and evals % 3001 == 0:
            samples.append({'file': (f or b'').replace(LIB, b'LIB').decode('latin-1'), 'rc': steps[0][0], 'changed': steps[0][1] != f})
    # files whose size does not fit an int (sparse; the last line is another library's entry)
    for label, hbad in C.huge_file_cases(ck, cli, LIB):
        if not label.startswith('enable'):
            continue
        evals += 1
        outcomes.add(('huge', label, tuple(hbad)))
        if hbad:
            ck.violation('C18:%s:%s' % ('+'.join(hbad), label), {'case': label, 'failed': hbad})
    ck.coverage(states=len(outcomes), transitions=evals, traces_validated_against_impl=evals, evaluations=evals, distinct_nontrivial=len(outcomes), files=len(fs),
                rule='all files up to the line bound over the 22-line alphabet x {final newline, none} + absent + empty, each: enable, enable, status; distinct = (exit code, changed?, status ok?, #active mentions, absent?, final newline?, failure set)',
                samples=samples or [{'note': 'none'}])
