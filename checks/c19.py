"""C19 - snoopyctl disable removes only its own entry.

Same exhaustively enumerated ld.so.preload contents as C18, through the real snoopyctl:
disable, enable;disable, disable;disable.  Oracle from the statement: refusal only for duplicate active
mentions, untouched when the entry is absent, otherwise every other line byte-identical and in order and
every other library token still present; disable after enable is the identity on clean files.
"""
import itertools
from checks import cli_common as C

META = {
    'level': 'model_checking',
    'technique': 'exhaustive enumeration of all preload files up to a line bound over a line alphabet, real snoopyctl, reference predicate from the statement',
    'text': 'Every file of the bounded grammar (entry first/middle/last/only, without final newline, followed by a comment, sharing its line with other entries, CR-LF, prefix/suffix paths, comments, blanks, %-sequences) '
            'is fed to the real `snoopyctl disable`, `enable;disable` and `disable;disable`; all lines other than the entry\'s line must survive byte for byte in order, the library tokens of active lines '
            'must be the old ones minus exactly one own entry, refusals leave the file untouched and occur only for duplicate active mentions.'
            ' The own entry counts wherever the dynamic loader takes it; after a reported success it must not be an active token any more; a foreign unterminated last line keeps its missing line feed; sparse files of 2^31-1..2^33 bytes.',
    'note': 'What remains of the entry\'s own line (blanks, a trailing comment) is not pinned down by the statement: the line may vanish or keep its other tokens. '
            'The own path counts wherever it is an active token of a line (as for the dynamic loader); mentions behind a # are dead text.',
}


tokens = C.tokens


def L(content):
    """the lines of a content; whether the last line carries a newline is not part of the comparison"""
    ls = (content or b'').split(b'\n')
    if ls and ls[-1] == b'':
        ls.pop()
    return ls


def judge_disable(old, rc, new, LIB):
    bad = []
    oldc = old or b''
    same = (new == old) or (old is None and new is None)
    act = C.active_mentions(oldc)
    ol = L(oldc)
    own_idx = [i for i, l in enumerate(ol) if C.own_entry_line(l, LIB)]
    if rc >= 98 and rc != 127:
        bad.append('crash_rc%d' % rc)
    mentions = sum(max(1, l.split(b'#', 1)[0].count(C.NAME)) for l in act)     # active lines that mention a libsnoopy.so, several mentions on one line counted each
    if rc != 0:
        if not same:
            bad.append('refused_but_modified')
        if mentions < 2:
            bad.append('refused_without_duplicate_active_mentions')
        return bad
    if not own_idx:
        # the entry is not an active token of any line: untouched
        return bad if same else ['modified_although_entry_absent']
    nl = L(new)
    ok = False
    if any(LIB in tokens(l) for l in nl):
        bad.append('own_entry_still_active_after_reported_success')
    for i in own_idx:
        rest = list(tokens(ol[i]))
        if LIB in rest:
            rest.remove(LIB)
        # variant A: the entry's line is gone (only if no other library lived on it)
        if not rest and nl == ol[:i] + ol[i + 1:]:
            ok = True
        # variant B: the line stays, minus the entry: other tokens identical and in order
        if len(nl) == len(ol) and nl[:i] == ol[:i] and nl[i + 1:] == ol[i + 1:] and tokens(nl[i]) == rest and (rest or not nl[i].split(b'#')[0].strip()):
            ok = True
    # the bytes in front of and behind the entry's line are the old ones exactly - including whether the last line of the file has a line feed:
    # a foreign last line that had none must not gain one (when the entry's line WAS the last one, the file simply ends where the previous line ended)
    if ok and (new or b'') != oldc:
        keep = oldc.split(b'\n')
        ends_nl = oldc.endswith(b'\n')
        lastline_idx = len(ol) - 1
        if not ends_nl and not any(i == lastline_idx and not [t for t in tokens(ol[i]) if t != LIB] for i in own_idx) and (new or b'').endswith(b'\n'):
            ok = False
            bad.append('unterminated_last_line_gained_a_line_feed')
        if ends_nl and (new or b'') and not (new or b'').endswith(b'\n'):
            ok = False
            bad.append('final_line_feed_lost')
    if not ok and not bad or (not ok and bad == ['own_entry_still_active_after_reported_success']):
        old_tok = [t for l in ol for t in tokens(l)]
        new_tok = [t for l in nl for t in tokens(l)]
        exp = list(old_tok)
        if LIB in exp:
            exp.remove(LIB)
        if new_tok != exp:
            bad.append('other_library_entries_changed')
        oc = [l for l in ol if C.is_comment(l) or not l.strip()]
        nc = [l for l in nl if C.is_comment(l) or not l.strip()]
        if oc != nc:
            bad.append('comment_or_blank_lines_changed')
        if not bad:
            bad.append('other_lines_not_preserved_byte_for_byte')
    return bad


def run(ck):
    cli, hcli, LIB = C.setup(ck)
    fs = C.files(LIB, 3 if ck.tier == 'thorough' else 2)
    if ck.tier == 'quick':
        A = C.line_alphabet(LIB)
        red = [A[i] for i in (0, 3, 5, 7, 8, 11, 12, 14, 15, 19)]
        seen = set(fs)
        for combo in itertools.product(red, repeat=3):
            for f in (b'\n'.join(combo) + b'\n', b'\n'.join(combo)):
                if f not in seen:
                    seen.add(f)
                    fs.append(f)
    if ck.tier == 'thorough':
        # 4-line files over a reduced alphabet (own entry in its variants, a foreign library, foreign snoopy, comments, blank)
        import itertools as _it
        A4 = C.line_alphabet(LIB)
        red4 = [A4[i] for i in (0, 3, 5, 7, 8, 12, 13, 14)]
        seen4 = set(fs)
        for combo in _it.product(red4, repeat=4):
            for f in (b'\n'.join(combo) + b'\n', b'\n'.join(combo)):
                if f not in seen4:
                    seen4.add(f)
                    fs.append(f)
    cases = [(f, 'dd') for f in fs] + [(f, 'ed') for f in fs]
    # caller / installation states (differential against the plain run of the same file): descriptors 0-2 closed; the library file already removed
    sub = fs if ck.tier == 'thorough' else [f for f in fs if f is None or f.count(b'\n') + (0 if f.endswith(b'\n') or not f else 1) <= 2]
    cases += [(f, 'Dd') for f in sub]
    xcases = [(f, 'xdc') for f in sub]
    res = C.run_batch(ck, cli, hcli, LIB, cases, 'c19')
    res += C.run_batch(ck, cli, hcli, LIB, xcases, 'c19x', n=1)     # alone: removes and recreates the shared library file
    cases += xcases
    evals = 0
    outcomes = set()
    samples = []
    if len(res) != len(cases):
        ck.violation('C19:harness:batch_incomplete', {'got': len(res), 'want': len(cases)})
    plain_first = {}
    for (f, seq), steps in zip(cases, res):
        if seq in ('Dd', 'xdc'):
            evals += 2
            st = steps[0] if seq == 'Dd' else (steps[1] if len(steps) > 1 else None)
            want = plain_first.get(f)
            if st is None or want is None:
                continue
            got = (st[0], st[1])
            what = 'std_descriptors_closed' if seq == 'Dd' else 'library_file_already_removed'
            outcomes.add((what, got[0], got[1] == f, got == want))
            if got != want:
                ck.violation('C19:disable_depends_on:%s:file=%r' % (what, (f or b'(absent)').replace(LIB, b'LIB')[:80]),
                             {'file': None if f is None else f.decode('latin-1'), 'state': what, 'in_state': {'rc': got[0], 'after': None if got[1] is None else got[1].decode('latin-1')},
                              'normally': {'rc': want[0], 'after': None if want[1] is None else want[1].decode('latin-1')}})
            continue
        if seq == 'dd' and len(steps) == 2:
            plain_first[f] = (steps[0][0], steps[0][1])
        evals += 2
        if len(steps) != 2:
            ck.violation('C19:harness:steps', {'file': repr(f)})
            continue
        show = (f or b'(absent)').replace(LIB, b'LIB')[:80]
        if seq == 'dd':
            (rc1, n1, _), (rc2, n2, _) = steps
            bad = judge_disable(f, rc1, n1, LIB)
            bad2 = judge_disable(n1, rc2, n2, LIB)
            bad += ['second_disable:' + b for b in bad2]
            outcomes.add(('dd', rc1, n1 == f, len(C.active_mentions(f or b'')), tuple(bad)))
            if bad:
                ck.violation('C19:%s:file=%r' % ('+'.join(bad), show), {'file': None if f is None else f.decode('latin-1'), 'LIB': LIB.decode(), 'disable_rc': rc1,
                             'after_disable': None if n1 is None else n1.decode('latin-1'), 'failed': bad})
        else:
            (rc1, n1, _), (rc2, n2, _) = steps
            clean = (f is None or f == b'' or f.endswith(b'\n')) and C.NAME not in (f or b'')
            outcomes.add(('ed', rc1, rc2, clean, n2 == f))
            if clean:
                # disabling right after enabling restores the original content
                restored = (n2 == f) or (f is None and n2 == b'')
                if rc1 != 0 or rc2 != 0 or not restored:
                    ck.violation('C19:enable_then_disable_not_identity:file=%r' % show, {'file': None if f is None else f.decode('latin-1'), 'after_enable': None if n1 is None else n1.decode('latin-1'),
                                 'after_disable': None if n2 is None else n2.decode('latin-1'), 'rcs': [rc1, rc2]})
            elif rc1 == 0 and n1 != f:
                bad = judge_disable(n1, rc2, n2, LIB)
                if bad:
                    ck.violation('C19:after_enable:%s:file=%r' % ('+'.join(bad), show), {'file': f.decode('latin-1'), 'after_enable': n1.decode('latin-1'), 'after_disable': None if n2 is None else n2.decode('latin-1')})
        if len(samples) < 5 and evals % 4001 == 2:
            samples.append({'file': show.decode('latin-1'), 'seq': seq, 'rcs': [s[0] for s in steps], 'changed': steps[0][1] != f})
    # files whose size does not fit an int (sparse; the last line is another library's entry)
    for label, hbad in C.huge_file_cases(ck, cli, LIB):
        if not label.startswith('disable'):
            continue
        evals += 1
        outcomes.add(('huge', label, tuple(hbad)))
        if hbad:
            ck.violation('C19:%s:%s' % ('+'.join(hbad), label), {'case': label, 'failed': hbad})
    ck.coverage(states=len(outcomes), transitions=evals, traces_validated_against_impl=evals, evaluations=evals, distinct_nontrivial=len(outcomes), files=len(fs),
                rule='all files up to the line bound over the 22-line alphabet x {final newline, none} + absent + empty, each: disable;disable and enable;disable; distinct = (sequence, exit codes, changed?, #active mentions, failure set)',
                samples=samples or [{'note': 'none'}])
