"""C02 - no configuration or exec input can crash or corrupt the calling process.

(1) whole path: every configuration of <= 2 lines over a ~170-line alphabet (per-option edge
    values, template edge cases, structural lines) x exec inputs x process environments, one wrapped
    call each on the production wrapper under ASan+UBSan;
(2) per component: every data source x argument alphabet with an exactly-sized heap result buffer
    for EVERY size in [257, L+3] (L = natural output length in a state that makes outputs long)
    plus sizes around 4 KiB / 64 KiB / 1 MiB; every filter with an argument alphabet.
Oracle: no sanitizer report, no fatal signal, no hang, real exec reached, results NUL-terminated.
"""
import os, itertools, re
from engine import harness as H, build
from engine.common import pmap, sh, VERIF

META = {
    'level': 'model_checking',
    'technique': 'bounded exhaustive enumeration of config-line pairs x exec inputs x environments, and of result-buffer sizes per data source, with ASan/UBSan as the invariant',
    'text': 'Sanitizer-as-invariant over an input grammar: all 1- and 2-line configurations from an alphabet holding each option\'s edge values (empty, 1 byte, colons, short syslog names, '
            'numbers at and beyond every limit, unbalanced quotes, tags of 98..1000 bytes, literals at limit-1/limit/limit+1, long lines, BOM, binary) crossed with exec inputs '
            '(NULL argv, argv[0]==NULL, 5000-byte argument, empty path) and environments (normal, empty, environ==NULL); and every data source called with exactly-sized heap buffers of every size '
            'from 257 to natural-length+3 and around 4K/64K/1M.'
            " Result buffers are pre-filled with non-NUL bytes (the terminator must be the data source's own); every source is called again in a failing process state (working directory removed, no stdin, empty environment) and with stdin on a terminal whose path is longer than the small buffers.",
    'note': 'Memory exhaustion and invalid pointers are outside the domain. Trusted: clang ASan/UBSan (exact heap buffer sizes make overflows byte-precise).',
}

NATIVE = os.path.join(VERIF, 'native')


def line_alphabet():
    L = []
    strv = [b'', b'x', b':', b':x', b'x:', b'"', b'""', b"'", b'"unbal', b'%', b'%{', b'%{}', b'%{:}', b'%{x', b'%{x}', b'%{cmdline', b'}{%', b'%{env:}', b'%{env}', b'%{datetime:%}', b'%{datetime:%Q%%%E}',
            b'%{cgroup}', b'%{cgroup:}', b'%{cgroup:99999999999999999999}', b'%{cgroup:-1}', b'%{env_all}', b'%{snoopy_literal:' + b'q' * 1000 + b'}']
    for k in (98, 99, 100, 101, 200):
        strv.append(b'%{' + b't' * k + b'}')
        strv.append(b'%{snoopy_literal:' + b'q' * (k - 15) + b'}')
        strv.append(b'%{env:' + b'N' * (k - 4) + b'}')
    for n in (254, 255, 256, 257):
        strv.append(b'L' * n)
        strv.append(b'L' * (n - 10) + b'%{snoopy_literal:0123456789}')
    for v in strv:
        L.append(b'message_format = ' + v)
    for v in strv[:22] + [b'I' * 254, b'I' * 255, b'I' * 256, b'I' * 300, b'%{env:BIG}', b'I' * 250 + b'%{snoopy_literal:abcdef}']:
        L.append(b'syslog_ident = ' + v)
    outs = [b'', b':', b':file', b'::', b'file', b'file:', b'file:log', b'file:%{', b'file:%{nosuch}', b'file:' + b'p' * 300, b'file:' + b'd/' * 400, b'file:%{env:BIG}', b'file:/dev/null',
            b'socket', b'socket:', b'socket:sock', b'socket:' + b's' * 106, b'socket:' + b's' * 107, b'socket:' + b's' * 108, b'socket:' + b's' * 109, b'socket:' + b's' * 300,
            b'devlog', b'devlog:x', b'devnull', b'devtty', b'stdout', b'stderr', b'noop', b'nosuch', b'nosuch:', b'FILE:log', b'file:log:more:colons', b'syslog']
    for v in outs:
        L.append(b'output = ' + v)
    for v in (b'', b'a', b'ab', b'abc', b'abcd', b'LOG_', b'LOG', b'LOG_A', b'log_user', b'x_y', b'___', b'USER', b'U' * 500):
        L.append(b'syslog_facility = ' + v)
        L.append(b'syslog_level = ' + v)
    for v in (b'', b'0', b'1', b'254', b'255', b'256', b'1048575', b'1048576', b'2047m', b'2048m', b'2147483647', b'2147483648', b'4294967296', b'99999999999999999999', b'9' * 100, b'7k', b'7x', b'k', b'-1', b'1m', b'-9999999999999999k', b'-99999999999999m', b'-9223372036854775808', b'-9223372036854775809k', b'+9999999999999999k'):
        L.append(b'datasource_message_max_length = ' + v)
        L.append(b'log_message_max_length = ' + v)
    for v in (b'', b'y', b'n', b'x', b'yes', b'no'):
        L.append(b'error_logging = ' + v)
    fc = [b'', b';', b';;', b':', b':;:', b'only_uid', b'only_uid:', b'only_uid:,', b'only_uid:,,,', b'only_uid:x', b'only_uid:' + b'1,' * 400, b'exclude_uid:0', b'exclude_uid', b'only_root:zz', b'only_tty',
          b'exclude_spawns_of', b'exclude_spawns_of:', b'exclude_spawns_of:,', b'exclude_spawns_of:a,,b', b'exclude_spawns_of:' + b'n' * 900, b'nosuch:' + b'a' * 900, b'n' * 1000, b'noop;' * 190,
          b'only_uid:0;' * 80, (b'F' * 1023 + b':x')[:990], b'exclude_spawns_of:python3', b'only_uid:99999999999999999999,-1,0x10']
    for v in fc:
        L.append(b'filter_chain = ' + v)
    # structural
    L += [b'[other]', b'[snoopy', b'[]', b'[' + b's' * 100 + b']', b'message_format', b'= x', b': x', b'=', b'  continued line', b'\tmessage_format = indented', b'; comment', b'# comment',
          b'message_format = a ; inline', b'message_format = a\r', b'x' * 1021, b'x' * 1022, b'x' * 1023, b'x' * 1024, b'x' * 1025, b'x' * 3000, b'message_format = ' + b'm' * 1022, b'message_format = ' + b'm' * 3000,
          b'n' * 60 + b' = long name', bytes(range(1, 10)) + bytes(range(11, 256)), b'\xef\xbb\xbf[snoopy]', b'\x00\x01\x02']
    return L


def groups(line):
    g = line.split(b' ', 1)[0]
    if g in (b'message_format', b'datasource_message_max_length', b'log_message_max_length', b'error_logging'):
        return 'msg'
    if g in (b'output', b'syslog_ident', b'syslog_facility', b'syslog_level'):
        return 'out'
    if g == b'filter_chain':
        return 'flt'
    return 'struct'


EXEC_INPUTS = {
    'normal': ('execve', H.hx(b'/bin/prog'), [H.hx(b'prog'), H.hx(b'a b')], [H.hx(b'A=1')]),
    'argvNULL': ('execve', H.hx(b'/bin/prog'), None, None),
    'argv0NULL': ('execv', H.hx(b'/bin/prog'), [], None),
    'arg5000': ('execve', H.hx(b'/p'), [H.hx(b'p'), H.rep('A', 5000), H.hx(b'\xff\x01')], [(300, H.hx(b'K=v'))]),
    'emptypath': ('execv', H.hx(b''), [H.hx(b'')], None),
}
ENVS = {'malformed': 'env set ' + H.vec([H.hx(b'A=1'), H.hx(b'NOEQUALSSIGN'), H.hx(b''), H.hx(b'=v'), H.hx(b'A=2'), H.hx(b'NL=a\nb')]),
        'normal': 'env set ' + H.vec([H.hx(b'PATH=/bin'), H.hx(b'LOGNAME=me'), H.hx(b'BIG=' + b'B' * 5000), H.hx(b'N' * 95 + b'=nn')]),
        'empty': 'env set []', 'null': 'env null'}


def cfgs(tier):
    A = line_alphabet()
    out = [(b'[snoopy]\n' + l + b'\n', 'all') for l in A]
    out += [(l + b'\n', 'one') for l in A[:5]]           # without a section header
    # every line also with error logging on (the error path re-enters the output and the formatter)
    out += [(b'[snoopy]\nerror_logging = yes\n' + l + b'\n', 'one') for l in A]
    out += [(b'[snoopy]\n' + l + b'\nerror_logging = yes\n', 'one') for l in A if groups(l) in ('out', 'msg')]
    out.append((None, 'all'))
    pairs = list(itertools.product(A, repeat=2))
    if tier == 'quick':
        dupopts = (b'output', b'filter_chain', b'syslog_ident', b'syslog_facility', b'datasource_message_max_length')
        pairs = [(a, b) for a, b in pairs if groups(a) == groups(b) and groups(a) != 'struct' and (a.split(b' ')[0] != b.split(b' ')[0] or (a.split(b' ')[0] in dupopts and len(a) < 80 and len(b) < 80))] + \
                [(a, b) for a, b in pairs if groups(a) == 'struct' and groups(b) == 'msg' and len(b) < 60][:600]
    for a, b in pairs:
        out.append((b'[snoopy]\n' + a + b'\n' + b + b'\n', 'one'))
    return out


def ci_commands(cfg):
    """the compiled-in equivalent of a one-line configuration (None if the line has none)"""
    if cfg is None or not cfg.startswith(b'[snoopy]\n') or cfg.count(b'\n') != 2:
        return None
    line = cfg.split(b'\n')[1]
    if b' = ' not in line:
        return None
    name, val = line.split(b' = ', 1)
    if name == b'message_format':
        return ['defformat ' + H.hx(val)]
    if name == b'filter_chain':
        return ['defchain ' + H.hx(val[:8000])]
    if name == b'syslog_ident':
        return ['defident ' + H.hx(val[:8000]), 'defoutput ' + H.hx(b'devlog')]
    if name == b'output':
        o, _, a = val.partition(b':')
        return ['defoutput ' + H.hx(o[:250]), 'defoutarg ' + H.hx(a[:8000])]
    return None


def chunk_script(items, compiled_in=False):
    lines = ['sinks pipe', 'lean 1', 'noentry', 'errno -1']
    n = 0
    plan = []
    for cfg, mode in items:
        if compiled_in:
            lines += ['defformat ' + H.hx(b'%{cmdline}'), 'defchain h', 'defident ' + H.hx(b'snoopy'), 'defoutput ' + H.hx(b'devlog'), 'defoutarg h'] + ci_commands(cfg)
        else:
            lines.append('cfgnone' if cfg is None else 'cfg ' + H.hx(cfg))
        combos = list(itertools.product(EXEC_INPUTS, ENVS)) if mode == 'all' else [('normal', 'normal'), ('argvNULL', 'null')]
        for ik, ek in combos:
            fn, p, a, e = EXEC_INPUTS[ik]
            lines.append(ENVS[ek])
            lines.append('call %s %s %s %s -1 2' % (fn, p, H.vec(a), H.vec(e) if fn == 'execve' else 'N'))
            plan.append((cfg, ik, ek))
    return '\n'.join(lines), plan


def run_chunk(args):
    h, items, w = args[:3]
    ci = len(args) > 3 and args[3] == 'ci'
    done, aborts = 0, []
    results = []
    pos = 0
    restarts = 0
    while pos < len(items) and restarts < 15:
        script, plan = chunk_script(items[pos:], compiled_in=ci)
        r = H.run_script(h, w, script, env_extra={'VERIF_HEXMAX': '0'}, timeout=300)
        calls = [l for l in r['lines'] if 'call' in l]
        results += list(zip(plan, calls))
        if r['done']:
            pos = len(items)
            break
        # locate the config the process died in
        failed = plan[len(calls)] if len(calls) < len(plan) else plan[-1]
        aborts.append((failed, r))
        # skip past that configuration
        k = 0
        cnt = 0
        for cfg, mode in items[pos:]:
            ncalls = len(EXEC_INPUTS) * len(ENVS) if mode == 'all' else 2
            if cnt + ncalls > len(calls):
                break
            cnt += ncalls
            k += 1
        pos += k + 1
        restarts += 1
    return results, aborts, pos >= len(items)


def ds_plan(repo, tier):
    src = open(os.path.join(repo, 'src/datasourceregistry.c')).read()
    m = re.search(r'snoopy_datasourceregistry_names\s*\[\]\s*=\s*\{(.*?)\};', src, re.S)
    names = re.findall(r'"([a-z_0-9]+)"', m.group(1))
    args = {
        'env': [b'', b'x', b'VERIF_E001', b'PATH', b'N' * 1023],
        'datetime': [b'', b'%', b'%Y-%m-%d %H:%M:%S', b'%c%c%c%c%c%c%c%c%c%c', b'%Q', b'x' * 300, b'%n%t%%', b'%A' * 40],
        'cgroup': [b'', b'0', b'1', b'name=systemd', b'99999', b'cpu', b'x' * 500, b'-1', b'01'],
        'snoopy_literal': [b'', b'x', b'l' * 300, b'l' * 1023],
    }
    default_args = [b'', b'x', b'VERIF_E001', b'a' * 1023]
    cmds = []
    for n in names:
        if n == 'snoopy_threads':
            pass
        for a in args.get(n, default_args):
            ah = a.hex() if a else '-'
            hi = 3300 if tier == 'quick' else 9000
            cmds.append('ds %s %s 257 %d' % (n, ah, hi))
            cmds.append('dsl %s %s 4095 4096 4097 65535 65536 65537 1048575 1048576 1048577' % (n, ah))
            if tier == 'thorough' and n in ('env_all', 'cmdline', 'cwd', 'env'):
                cmds.append('ds %s %s 9001 65537' % (n, ah))
    return names, cmds


def run_ds(args):
    h, cmds, w = args
    os.makedirs(w, exist_ok=True)
    env = H.san_env(w)
    env['LOGNAME'] = 'l' * 300
    env['SUDO_USER'] = 's' * 300
    inp = 'setup 60 40 3000\n' + '\n'.join(cmds) + '\n'
    r = sh([h], input=inp.encode(), env=env, cwd=w, timeout=1200)
    reports = [open(os.path.join(w, f), errors='replace').read()[:2500] for f in os.listdir(w) if f.startswith(('asan.', 'ubsan.'))]
    return r.stdout.decode(errors='replace').splitlines(), r.returncode, reports


def run(ck):
    v = H.build_exec_harness('c02-ts-asan')
    h_ds = build.link_harness(v, os.path.join(v['dir'], 'h_ds'), [os.path.join(NATIVE, 'h_ds.c'), os.path.join(NATIVE, 'seam.c')])
    items = cfgs(ck.tier)
    nchunks = 48
    size = (len(items) + nchunks - 1) // nchunks
    jobs = [(v['h_exec'], items[i:i + size], os.path.join(ck.workdir, 'p%d' % (i // size))) for i in range(0, len(items), size)]
    # other builds of the same sources: non-thread-safe (every one-line configuration), configuration compiled in (every line that has a
    # compiled-in equivalent: message format, filter chain, syslog ident, default output)
    single = [it for it in items if it[0] is None or it[0].count(b'\n') <= 3]
    vn = H.build_exec_harness('c02-nots-asan', ts=False)
    vci = H.build_exec_harness('c02ci-ts-asan', compiled_in=True)
    cis = [(c, 'one') for c, m in single if ci_commands(c)]
    for k in range(8):
        jobs.append((vn['h_exec'], [(c, 'one') for c, m in single[k::8]], os.path.join(ck.workdir, 'n%d' % k), 'nots'))
        jobs.append((vci['h_exec'], cis[k::8], os.path.join(ck.workdir, 'ci%d' % k), 'ci'))
    names, dcmds = ds_plan(v['repo'], ck.tier)
    # /etc/hosts as the domain data source may find it (bound over the real file in a private mount namespace)
    hn = os.uname().nodename.encode()
    HOSTS = [b'', b'\n', b'127.0.0.1 localhost', hn + b'.example.org 10.1.2.3\n', b'10.1.2.3 ' + hn + b'.example.org ' + hn + b'\n', b'10.1.2.3\t' + hn + b'.\n', b'# ' + hn + b'.commented.example\n10.0.0.1 x' + hn + b'.sub.example\n',
             b'10.1.2.3 ' + b'a' * 1010 + b' ' + hn + b'.cut-by-the-line-buffer.example\n', b'10.1.2.3 ' + b'a' * 1013 + hn + b'.x\n', hn + b'.', hn.upper() + b'.UPPER.EXAMPLE', b'10.1.2.3 ' + hn + b'.' + b'd' * 3000 + b'\n',
             bytes(range(1, 256)) * 8 + hn + b'.after-binary\n']
    hlines = ['sinks pipe', 'lean 1', 'noentry', 'cfg ' + H.hx(b'[snoopy]\nmessage_format = %{domain}|%{hostname}\noutput = file:log\n')]
    for hc in HOSTS:
        hlines += ['bindover ' + H.hx(hc) + ' ' + H.hx(b'/etc/hosts'), 'call execve %s %s [] -1 2' % (H.hx(b'/bin/p'), H.vec([H.hx(b'p')]))]
    hr = H.run_script(v['h_exec'], os.path.join(ck.workdir, 'hosts'), '\n'.join(hlines), env_extra={'VERIF_HEXMAX': '0'}, timeout=120)
    ncalls_h = len([l for l in hr['lines'] if 'call' in l])
    if not hr['done'] or hr['san']:
        hc = HOSTS[ncalls_h] if ncalls_h < len(HOSTS) else b'?'
        ck.violation('C02:abort:hosts_file=%s' % hc[:40].decode('latin-1').replace('\n', '|'), {'hosts': hc[:300].decode('latin-1'), 'rc': hr['rc'], 'signal': hr['signal'], 'sanitizer': hr['san'][:1]})
    per = (len(dcmds) + 15) // 16
    djobs = [(h_ds, dcmds[i:i + per], os.path.join(ck.workdir, 'd%d' % (i // per))) for i in range(0, len(dcmds), per)]
    # the same sources in a state in which they fail or have nothing to say (working directory removed, stdin closed, environment empty)
    fcmds = []
    for c in dcmds:
        if c.startswith('ds '):
            t = c.split()
            fc = 'dsl %s %s 257 258 300 2048 4096 4097' % (t[1], t[2])
            if fc not in fcmds:
                fcmds.append(fc)
    djobs.append((h_ds, ['failstate'] + fcmds, os.path.join(ck.workdir, 'dfail')))
    # stdin on a terminal whose device path (about 340 bytes) is longer than the smallest result buffers: the terminal data sources at every size around it
    djobs.append((h_ds, ['ttylong'] + ['ds %s - 257 700' % n for n in ('tty', 'tty_uid', 'tty_username', 'ipaddr', 'login')] + ['dsl %s - 2047 2048 4095 4096 4097' % n for n in ('tty', 'tty_uid', 'tty_username', 'ipaddr')], os.path.join(ck.workdir, 'dtty')))
    res = pmap(lambda j: ('x', run_chunk(j)) if j[0] != h_ds else ('d', run_ds(j)), jobs + djobs)
    evals = 0
    outcomes = set()
    samples = []
    for job, (kind, r) in zip(jobs, res[:len(jobs)]):
        bld = (':build=' + {'nots': 'non_thread_safe', 'ci': 'config_compiled_in'}[job[3]]) if len(job) > 3 else ''
        results, aborts, complete = r
        if not complete:
            ck.capped = True
        for (cfg, ik, ek), rr in aborts:
            head = (cfg or b'(absent)').split(b'\n', 1)[-1][:70].decode('latin-1').replace('\n', '|')
            ck.violation('C02:abort%s:input=%s:env=%s:cfg=%s' % (bld, ik, ek, head),
                         {'config': (cfg or b'').decode('latin-1')[:1500], 'exec_input': ik, 'environment': ek, 'rc': rr['rc'], 'signal': rr['signal'], 'timed_out': rr['timed_out'],
                          'sanitizer': rr['san'][:1], 'stderr': rr['stderr'][-400:]})
        for (cfg, ik, ek), j in results:
            evals += 1
            outcomes.add((H.fnv(cfg or b'-'), ik, ek, j['logdelta']['len'] > 0, j['devlogdelta']['len'] > 0))
            if j['rec_calls'] != 1 or j['ret'] != -1 or j['errno'] != 2:
                ck.violation('C02:exec_not_reached_or_result_changed%s:input=%s' % (bld, ik), {'config': (cfg or b'').decode('latin-1')[:800], 'record': {k: j[k] for k in ('rec_calls', 'ret', 'errno')}})
            if len(samples) < 4 and evals % 4001 == 5:
                samples.append({'config': (cfg or b'(absent)').decode('latin-1')[:160], 'exec_input': ik, 'environment': ek, 'logged': j['logdelta']['len'] > 0})
    nsizes = 0
    for (kind, r), job in zip(res[len(jobs):], djobs):
        lines, rc, reports = r
        got = [l for l in lines if l.startswith(('ds ', 'dsl '))]
        for l in got:
            m = re.search(r'sizes=(\d+) maxlen=(-?\d+) terminated=(\d) badsize=(\d+)', l)
            nsizes += int(m.group(1))
            outcomes.add(('ds',) + tuple(l.split()[1:3]) + (m.group(2),))
            if m.group(3) != '1':
                ck.violation('C02:unterminated_result:%s%s' % ('state=cwd_removed_no_stdin_no_env:' if job[1][:1] == ['failstate'] else '', ' '.join(l.split()[1:3])[:80]), {'line': l})
        if rc != 0 or 'done' not in lines[-1:]:
            dcs = [c for c in job[1] if c.startswith(('ds ', 'dsl '))]
            cmd = (('failstate; ' if job[1][:1] == ['failstate'] else 'stdin=tty_with_340_byte_path; ' if job[1][:1] == ['ttylong'] else '') + dcs[len(got)]) if len(got) < len(dcs) else '?'
            ck.violation('C02:component_abort:%s' % cmd[:100], {'command': cmd, 'rc': rc, 'sanitizer': reports[:1]})
            if len(got) + 1 < len(job[1]):
                ck.capped = True
    evals += nsizes
    ck.assumptions += ['allocation failure and invalid pointers outside the domain', 'the natural output lengths are those of the constructed state: 60 extra env vars, 2000-byte cwd, 3000-byte argv, 300-byte LOGNAME']
    ck.coverage(states=len(outcomes), transitions=evals, traces_validated_against_impl=evals, evaluations=evals, distinct_nontrivial=len(outcomes),
                rule='configs of <=2 alphabet lines x exec inputs x environments (one wrapped call each) + every (data source, argument, buffer size) call; distinct = distinct (config, input, env, logged?) and (source, arg, natural length)',
                configurations=len(items), alphabet_lines=len(line_alphabet()), datasource_buffer_sizes_tried=nsizes, data_sources=len(names), samples=samples or [{'note': 'none'}])
