"""C05 - message format expansion is exact and length-bounded.

Every sequence of <= 3 (quick) / <= 4 (thorough, reduced alphabet) tokens over a token alphabet, crossed with
limit pairs, is run through the whole path (configuration file -> production wrapper -> file output)
and compared with a reference expander written from the property statement.
"""
import shutil, itertools, os, re
from engine import harness as H
from engine.common import pmap, BUILD

META = {
    'level': 'model_checking',
    'technique': 'bounded exhaustive enumeration of format token sequences x limit pairs against a reference expander, through the real config->wrapper->output path',
    'text': 'All token sequences up to the bound over an alphabet holding every special character, known/unknown/failing/unterminated/nested tags, '
            'tag lengths around the 100-byte tag buffer and data-source outputs at limit-1/limit/limit+1, for 16 (datasource,log) limit pairs, '
            'are executed on the real code under ASan/UBSan; the message must equal the reference expansion when everything fits, and respect both limits always. '
            'The syslog-ident and output-path templates are checked the same way at their fixed limits.',
    'note': 'Reference expander (30 lines) is the oracle; after an unknown tag only the prefix is compared (statement is silent). '
            'Data-source outputs are built from the byte Z which occurs nowhere else, so contributions can be counted.',
}

PATH = b'/p/F'
ARGV = [b'c', b'd e']
CMDLINE = b'c d e'
KNOWN = None  # filled from the registry source


def known_names(repo):
    src = open(os.path.join(repo, 'src/datasourceregistry.c')).read()
    m = re.search(r'snoopy_datasourceregistry_names\s*\[\]\s*=\s*\{(.*?)\};', src, re.S)
    return set(re.findall(r'"([a-z_0-9]+)"', m.group(1)))


E_UNTERM = b"[ERROR: Closing data source tag ('}') not found.]"


def ds_value(name, arg, env):
    """(bytes, ok) for the data sources used in the alphabet"""
    if name == b'snoopy_literal':
        return arg, True
    if name == b'env':
        v = env.get(arg)
        return (v if v is not None else b'(undefined)'), True
    if name == b'filename':
        return PATH, True
    if name == b'cmdline':
        return CMDLINE, True
    if name == b'noop':
        return b'', True
    if name == b'failure':
        return b'Artificial datasource failure triggered', False
    raise KeyError(name)


def expand(fmt, env, known):
    """Reference expansion.  Returns (text, status, ds_lengths) status: 'full' | 'stopped-unknown' | 'stopped-unterminated'"""
    out, pos, dsl = b'', 0, []
    while True:
        i = fmt.find(b'%{', pos)
        if i < 0:
            return out + fmt[pos:], 'full', dsl
        out += fmt[pos:i]
        j = fmt.find(b'}', i)
        if j < 0:
            return out + E_UNTERM, 'stopped-unterminated', dsl
        tag = fmt[i + 2:j]
        name, _, arg = tag.partition(b':')
        if name.decode('latin-1') not in known:
            return out + b"[ERROR: Data source '" + name + b"' not found.]", 'stopped-unknown', dsl
        val, ok = ds_value(name, arg, env)
        dsl.append(len(val))
        out += val if ok else (b"[ERROR: Data source '" + name + b"' failed with the following error message: '" + val + b"']")
        pos = j + 1


def tokens(dsmax):
    t = [b'a', b'L' * 300, b'%', b'{', b'}', b':', b'%{',
         b'%{snoopy_literal:xy}', b'%{snoopy_literal:}', b'%{snoopy_literal}', b'%{snoopy_literal:a:b}', b'%{env:V1}', b'%{env:V2}', b'%{env:V3}',
         b'%{filename}', b'%{cmdline}', b'%{noop}', b'%{failure}', b'%{nosuch}', b'%{nosuch:arg}', b'%{}', b'%{:}', b'%{abc',
         b'%{a%{snoopy_literal:b}}']
    for k in (98, 99, 100, 101):
        t.append(b'%{snoopy_literal:' + b'q' * (k - len('snoopy_literal:')) + b'}')
    return t


def envfor(dsmax):
    return {b'V1': b'Z' * (dsmax - 1), b'V2': b'Z' * dsmax, b'V3': b'Z' * (dsmax + 1)}


LIMITS_DS = [255, 256, 300, 2047]
LIMITS_LOG = [255, 256, 300, 16383]
VALUE_MAX = 1000   # formats longer than this are skipped and counted (inih line limit 1023 incl. key)


def judge(fmt, msg, dsmax, logmax, env, known):
    exp, status, dsl = expand(fmt, env, known)
    bad = []
    if len(msg) > logmax:
        bad.append('len>logmax(%d>%d)' % (len(msg), logmax))
    zmax = sum(min(l, dsmax) for l in dsl)
    if msg.count(b'Z') > sum(min(len(v), dsmax) for v in [env[b'V1'], env[b'V2'], env[b'V3']] for _ in [0]) * 4 or False:
        pass
    # Z bytes come only from env tags: their number may not exceed what the tags may contribute
    nz_allowed = 0
    for m in re.finditer(rb'%\{env:(V[123])\}', fmt):
        nz_allowed += min(len(env[m.group(1)]), dsmax)
    if msg.count(b'Z') > nz_allowed:
        bad.append('datasource_contributed>dsmax(%d>%d)' % (msg.count(b'Z'), nz_allowed))
    fits = all(l <= dsmax for l in dsl) and len(exp) <= logmax
    if fits:
        if status == 'stopped-unknown':
            if not msg.startswith(exp):
                bad.append('prefix_mismatch_before_unknown_tag')
        elif msg != exp:
            bad.append('inexact_expansion')
    return bad, exp, status, fits


def run_chunk(args):
    h, idx, dsmax, logmax, fmts, w = args
    env = envfor(dsmax)
    lines = ['sinks pipe', 'lean 1', 'errno -1'] + ['setenv %s %s' % (H.hx(k), H.hx(v)) for k, v in env.items()]
    if idx < 0:
        # compiled-in route: the format is the build's default message format (no configuration file in this build; limits are the defaults)
        lines += ['defoutput ' + H.hx(b'file'), 'defoutarg ' + H.hx((w + '/log').encode())]
        for f in fmts:
            lines.append('defformat ' + H.hx(f))
            lines.append('call execve %s %s [] -1 2' % (H.hx(PATH), H.vec([H.hx(a) for a in ARGV])))
        return H.run_script(h, w, '\n'.join(lines), env_extra={'VERIF_HEXMAX': '40000'}, timeout=900)
    for f in fmts:
        cfg = b'[snoopy]\ndatasource_message_max_length = %d\nlog_message_max_length = %d\noutput = file:%s/log\nmessage_format = %s\n' % (dsmax, logmax, w.encode(), f)
        lines.append('cfg ' + H.hx(cfg))
        lines.append('call execve %s %s [] -1 2' % (H.hx(PATH), H.vec([H.hx(a) for a in ARGV])))
    r = H.run_script(h, w, '\n'.join(lines), env_extra={'VERIF_HEXMAX': '40000' if dsmax < 100000 else '6000000'}, timeout=900)
    return r


def run_chunk_resilient(args):
    """Run a chunk; when the process dies on a format, report it and continue after it (bounded restarts)."""
    h, idx, dsmax, logmax, fmts, w = args
    calls, aborts, pos, restarts = [], [], 0, 0
    while pos < len(fmts):
        r = run_chunk((h, idx, dsmax, logmax, fmts[pos:], w))
        got = [l for l in r['lines'] if 'call' in l]
        calls += got
        pos += len(got)
        if r['done']:
            break
        if pos < len(fmts):
            aborts.append((fmts[pos], r))
            calls.append(None)
            pos += 1
        restarts += 1
        if restarts >= 12:
            break
    return calls, aborts, pos


def bisect_crash(h, w, dsmax, logmax, fmts):
    """a chunk aborted: find the first format that kills the process"""
    r = run_chunk((h, 0, dsmax, logmax, fmts, w))
    n = len([l for l in r['lines'] if 'call' in l])
    return n, r


def template_tokens():
    return [b'a', b'L' * 300, b'%', b'}', b':', b'%{', b'%{snoopy_literal:xy}', b'%{env:I1}', b'%{env:I2}', b'%{env:I3}', b'%{cmdline}',
            b'%{failure}', b'%{nosuch}', b'%{snoopy_literal:' + b'q' * 90 + b'}']


def run_templates(args):
    h, kind, fmts, w = args
    env = {b'I1': b'Z' * 254, b'I2': b'Z' * 255, b'I3': b'Z' * 256}
    lines = ['sinks pipe', 'lean 1', 'errno -1', 'mkdir o'] + ['setenv %s %s' % (H.hx(k), H.hx(v)) for k, v in env.items()]
    for f in fmts:
        if kind == 'ident':
            cfg = b'[snoopy]\noutput = devlog\nmessage_format = M\nsyslog_ident = %s\n' % f
        else:
            cfg = b'[snoopy]\nmessage_format = M\noutput = file:%s/o/%s\n' % (w.encode(), f)
        lines.append('cfg ' + H.hx(cfg))
        lines.append('call execve %s %s [] -1 2' % (H.hx(PATH), H.vec([H.hx(a) for a in ARGV])))
        if kind == 'path':
            lines.append('lsdir o rm')
    return H.run_script(h, w, '\n'.join(lines), env_extra={'VERIF_HEXMAX': '40000'}, timeout=600)


def template_phase(ck, v, known):
    toks = template_tokens()
    n = 3 if ck.tier == 'thorough' else 2
    env = {b'I1': b'Z' * 254, b'I2': b'Z' * 255, b'I3': b'Z' * 256}
    evals, outcomes = 0, set()
    fm = []
    for k in range(1, n + 1):
        for sq in itertools.product(toks, repeat=k):
            f = b''.join(sq)
            if len(f) <= 900 and f not in fm:
                fm.append(f)
    # ident
    chunks = [fm[i:i + 400] for i in range(0, len(fm), 400)]
    res = pmap(run_templates, [(v['h_exec'], 'ident', c, os.path.join(ck.workdir, 'ti%d' % i)) for i, c in enumerate(chunks)])
    for c, r in zip(chunks, res):
        calls = [l for l in r['lines'] if 'call' in l]
        if not r['done']:
            f = c[len(calls)] if len(calls) < len(c) else b'?'
            ck.violation('C05:ident:abort:fmt=%s' % f[:60].decode('latin-1'), {'format': f.decode('latin-1'), 'sanitizer': r['san'][:1], 'rc': r['rc']})
        for f, j in zip(c, calls):
            evals += 1
            recs = H.dgrams(j['devlogdelta'])
            exp, status, dsl = expand(f, env, known)
            if len(recs) != 1:
                ck.violation('C05:ident:records=%d:fmt=%s' % (len(recs), f[:50].decode('latin-1')), {'format': f.decode('latin-1')})
                continue
            m = re.match(rb'^<(\d+)>(.*)\[(\d+)\]: M$', recs[0], re.S)
            if not m:
                ck.violation('C05:ident:framing:fmt=%s' % f[:50].decode('latin-1'), {'format': f.decode('latin-1'), 'datagram': recs[0][:300].decode('latin-1')})
                continue
            ident = m.group(2)
            bad = []
            if len(ident) > 255:
                bad.append('ident>255')
            if len(exp) <= 255:
                if status == 'stopped-unknown':
                    if not ident.startswith(exp):
                        bad.append('prefix_mismatch')
                elif ident != exp:
                    bad.append('inexact')
            outcomes.add(('ident', status, len(exp) <= 255, H.fnv(ident)))
            if bad:
                ck.violation('C05:ident:%s:fmt=%s' % ('+'.join(bad), f[:50].decode('latin-1')),
                             {'format': f.decode('latin-1'), 'expected': exp[:300].decode('latin-1'), 'observed': ident[:300].decode('latin-1')})
    # path (names must be valid single path components: no '/', <= 255 bytes; others only 'must not crash')
    pf = [f for f in fm if b'%{cmdline}' not in f]
    chunks = [pf[i:i + 400] for i in range(0, len(pf), 400)]
    res = pmap(run_templates, [(v['h_exec'], 'path', c, os.path.join(ck.workdir, 'tp%d' % i)) for i, c in enumerate(chunks)])
    for c, r in zip(chunks, res):
        calls = [l for l in r['lines'] if 'call' in l]
        dirs = [l for l in r['lines'] if 'lsdir' in l]
        if not r['done']:
            f = c[len(calls) - 1] if 0 < len(calls) <= len(c) else b'?'
            ck.violation('C05:path:abort:fmt=%s' % f[:60].decode('latin-1'), {'format': f.decode('latin-1'), 'sanitizer': r['san'][:1], 'rc': r['rc']})
        for f, j, d in zip(c, calls, dirs):
            evals += 1
            exp, status, dsl = expand(f, env, known)
            names = [H.sink_bytes(e['name']) for e in d['lsdir']]
            outcomes.add(('path', status, tuple(H.fnv(x) for x in names)))
            creatable = 0 < len(exp) <= 255 and b'/' not in exp and exp not in (b'.', b'..') and status == 'full'
            if creatable:
                if names != [exp]:
                    ck.violation('C05:path:inexact:fmt=%s' % f[:50].decode('latin-1'),
                                 {'format': f.decode('latin-1'), 'expected_name': exp.decode('latin-1'), 'observed_names': [x.decode('latin-1') for x in names]})
                elif H.sink_bytes(d['lsdir'][0]['content']) != b'M\n':
                    ck.violation('C05:path:content:fmt=%s' % f[:50].decode('latin-1'), {'format': f.decode('latin-1')})
    # the path template has its own fixed limit (PATH_MAX): a data source inside it may be LONGER than datasource_message_max_length
    # (directory paths are), and the configured limit must not cut it
    e2, o2 = deep_path_cases(ck, v)
    return evals + e2, outcomes | o2


def deep_path_cases(ck, v):
    w = os.path.join(ck.workdir, 'deep')
    cases = []
    for dsmax in (255, 300, 2047):
        for total in (dsmax - 1, dsmax, dsmax + 1, dsmax + 200, 3500):
            d = w + 'dirs/o%d' % dsmax      # outside the script's own work directory (which run_script recreates)
            while total - len(d) > 202:
                d += '/' + 'a' * 200
            if total - len(d) >= 2:
                d += '/' + 'c' * (total - len(d) - 1)
            cases.append((dsmax, total, d))
    lines = ['sinks pipe', 'lean 1', 'errno -1']
    for dsmax, total, d in cases:
        os.makedirs(d, exist_ok=True)
        cfg = b'[snoopy]\ndatasource_message_max_length = %d\nmessage_format = M\noutput = file:%%{env:DEEPDIR}/f-%%{snoopy_literal:x}\n' % dsmax
        lines += ['setenv %s %s' % (H.hx(b'DEEPDIR'), H.hx(d.encode())), 'cfg ' + H.hx(cfg), 'call execve %s %s [] -1 2' % (H.hx(PATH), H.vec([H.hx(a) for a in ARGV]))]
    r = H.run_script(v['h_exec'], w, '\n'.join(lines), env_extra={'VERIF_HEXMAX': '64'}, timeout=300)
    if not r['done']:
        ck.violation('C05:path:abort:deep_directory', {'sanitizer': r['san'][:1], 'rc': r['rc']})
    outcomes = set()
    n = 0
    for (dsmax, total, d), j in zip(cases, [l for l in r['lines'] if 'call' in l]):
        n += 1
        f = os.path.join(d, 'f-x')
        ok = os.path.exists(f) and open(f, 'rb').read() == b'M\n'
        outcomes.add(('deep', dsmax, total - dsmax if total < 3000 else 'big', ok))
        if not ok:
            stray = [os.path.join(dp, x)[len(w):] for dp, _, fs in os.walk(w + 'dirs') for x in fs][:5]
            ck.violation('C05:path:record_not_at_expanded_path:dir_len=%d:ds=%d' % (len(d), dsmax),
                         {'datasource_message_max_length': dsmax, 'directory_length': len(d), 'expected_file': f[-80:], 'files_found_instead': stray})
        elif os.path.exists(f):
            os.unlink(f)
    shutil.rmtree(w, ignore_errors=True)
    shutil.rmtree(w + 'dirs', ignore_errors=True)
    return n, outcomes


def native_limit_phase(ck, v):
    """cmdline / filename / env / env_all build their value themselves: argument vectors, paths and environments whose natural text is
    limit-1 / limit / limit+1 / far above, with the boundary falling at an argument end, on a separator, or inside an argument."""
    cases = []
    for dsmax in (255, 2047, 5000):      # below, at and ABOVE the default limit (a buffer sized for the default must grow with the configured one)
        for total in (dsmax - 4, dsmax - 1, dsmax, dsmax + 1, dsmax + 200):
            shapes = {
                'one': [b'a' * total],
                'two_last_long': [b'b' * 10, b'c' * (total - 11)],
                'boundary_at_arg_end': [b'd' * (dsmax - 4), b'eee'] + [b'f' * 5] * ((total - dsmax) // 6 + 1) if total > dsmax else [b'd' * (total - 4), b'eee'],
                'boundary_on_separator': [b'g' * dsmax, b'hh', b'i'] if total > dsmax else [b'g' * (total - 2), b'h'],
                'one_short_of_limit_then_empty': [b'j' * (dsmax - 1), b'', b'kk'] if total > dsmax else [b'j' * (total - 1), b''],
                'many_small': [b'lm'] * ((total + 2) // 3),
            }
            for sk, av in shapes.items():
                cases.append((dsmax, 'cmdline', sk + ':%d' % total, dict(argv=av), b' '.join(av)))
            cases.append((dsmax, 'filename', 'len:%d' % total, dict(path=b'/' + b'p' * (total - 1)), b'/' + b'p' * (total - 1)))
            cases.append((dsmax, 'env:V', 'len:%d' % total, dict(env=[b'V=' + b'v' * total]), b'v' * total))
            for envs in ([b'A=' + b'x' * (total - 2)], [b'A=1', b'B=' + b'y' * (total - 6)], [b'K%02d=%s' % (i, b'z' * 10) for i in range((total + 14) // 15)]):
                cases.append((dsmax, 'env_all', 'vars=%d:%d' % (len(envs), total), dict(env=envs), b','.join(envs)))
    w = os.path.join(ck.workdir, 'native')
    lines = ['sinks pipe', 'lean 1', 'errno -1']
    for dsmax, ds, label, st, natural in cases:
        cfg = b'[snoopy]\ndatasource_message_max_length = %d\nlog_message_max_length = 100000\noutput = file:%s/log\nmessage_format = <%%{%s}>\n' % (dsmax, w.encode(), ds.encode())
        lines.append('cfg ' + H.hx(cfg))
        lines.append('env set ' + H.vec([H.hx(e) for e in st.get('env', [b'Z=1'])]))
        lines.append('call execve %s %s [] -1 2' % (H.hx(st.get('path', b'/p')), H.vec([H.hx(a) for a in st.get('argv', [b'x'])])))
    r = H.run_script(v['h_exec'], w, '\n'.join(lines), env_extra={'VERIF_HEXMAX': '40000'}, timeout=300)
    calls = [l for l in r['lines'] if 'call' in l]
    outcomes = set()
    if not r['done']:
        c = cases[len(calls)] if len(calls) < len(cases) else None
        ck.violation('C05:native:abort:%s' % (c[1:3],), {'case': str(c[:3]), 'sanitizer': r['san'][:1], 'rc': r['rc']})
    for (dsmax, ds, label, st, natural), j in zip(cases, calls):
        data = H.sink_bytes(j['logdelta'])
        bad = []
        if not (data.startswith(b'<') and data.endswith(b'>\n')):
            bad.append('framing')
            val = data
        else:
            val = data[1:-2]
        if len(val) > dsmax:
            bad.append('contributed_%d>dsmax' % len(val))
        # env_all keeps room for its own ",..." continuation mark (documented in the source): what it returns IS its output, so
        # exactness is only demanded where that reserve is not needed; the bound and the prefix rule hold everywhere
        reserve = 4 if ds == 'env_all' else 0
        if len(natural) <= dsmax - reserve:
            if val != natural:
                bad.append('inexact_although_it_fits')
        elif len(natural) > dsmax or val != natural:
            core = val[:-3] if (ds == 'env_all' and val.endswith(b'...')) else val
            if not natural.startswith(core):
                bad.append('not_a_prefix_of_the_full_text')
            elif len(core) < dsmax - 16:
                bad.append('cut_much_shorter_than_the_limit(%d)' % len(core))
        outcomes.add(('native', ds, label.split(':')[0], len(natural) - dsmax, tuple(bad)))
        if bad:
            ck.violation('C05:native:%s:%s:ds=%d:%s' % ('+'.join(re.sub(r'\(.*?\)|_\d+', '', b) for b in bad), ds, dsmax, label), {'datasource': ds, 'dsmax': dsmax, 'case': label, 'natural_len': len(natural), 'value_len': len(val), 'value_tail': val[-40:].decode('latin-1'), 'failed': bad})
    return len(calls), outcomes


def run(ck):
    v = H.build_exec_harness('c05-ts-asan')
    known = known_names(v['repo'])
    full = ck.tier == 'thorough'
    jobs = []
    skipped = 0
    chunk = 1500
    idx = 0
    per_limit = {}
    for dsmax in LIMITS_DS:
        toks = tokens(dsmax)
        seqs = [s for n in (1, 2, 3) for s in itertools.product(toks, repeat=n)]
        red = [t for t in toks if t not in (b'%{snoopy_literal:}', b'%{nosuch:arg}', b'%{:}', b'%{noop}', b'{', b':', b'%{snoopy_literal:a:b}')]
        seqs4 = list(itertools.product(red, repeat=4)) if full else []
        fm = []
        seen = set()
        for s in seqs:
            f = b''.join(s)
            if len(f) > VALUE_MAX:
                skipped += 1
                continue
            if f in seen:
                continue
            seen.add(f)
            fm.append(f)
        fm4 = []
        for sq in seqs4:
            f = b''.join(sq)
            if len(f) <= VALUE_MAX and f not in seen:
                seen.add(f)
                fm4.append(f)
        for logmax in LIMITS_LOG:
            # quick: the full token^3 space for the 2 extreme limit pairs + diagonal; others get token^2
            if not full and (dsmax, logmax) not in ((255, 255), (256, 256), (2047, 16383), (300, 300), (255, 16383), (2047, 255)):
                use = [f for f in fm if len(f) <= 640 and f.count(b'%{') <= 2 and f.count(b'L' * 300) <= 1]
            else:
                use = fm
            if full and (dsmax, logmax) in ((255, 255), (256, 256), (300, 300), (2047, 16383)):
                use = use + fm4          # 4-token sequences on the diagonal limit pairs only (3.4 M cases otherwise)
            per_limit[(dsmax, logmax)] = len(use)
            for i in range(0, len(use), chunk):
                jobs.append((v['h_exec'], idx, dsmax, logmax, use[i:i + chunk], os.path.join(ck.workdir, 'w%d' % idx)))
                idx += 1
    # the compiled-in route (./configure --disable-config-file --with-message-format=...): default limits, all <= 3-token formats (quick: the reduced set)
    vci = H.build_exec_harness('c05ci-ts-asan', compiled_in=True)
    toks = tokens(2047)
    seen, fmci = set(), []
    for n in (1, 2, 3):
        for sq in itertools.product(toks, repeat=n):
            f = b''.join(sq)
            if f not in seen and len(f) <= 60000 and (full or (len(f) <= 640 and f.count(b'%{') <= 2 and f.count(b'L' * 300) <= 1)):
                seen.add(f)
                fmci.append(f)
    per_limit[('compiled_in', 2047, 16383)] = len(fmci)
    for i in range(0, len(fmci), chunk):
        idx += 1
        jobs.append((vci['h_exec'], -idx, 2047, 16383, fmci[i:i + chunk], os.path.join(ck.workdir, 'ci%d' % idx)))
    if full:
        # the upper end of the configurable range: both limits at 1048575, data-source outputs of limit-1 / limit / limit+1 bytes
        big = 1048575
        bt = [b'a', b'%{env:V1}', b'%{env:V2}', b'%{env:V3}', b'%{filename}', b'%{nosuch}', b'%{failure}']
        bf = [b''.join(sq) for n in (1, 2) for sq in itertools.product(bt, repeat=n)]
        per_limit[(big, big)] = len(bf)
        for i in range(0, len(bf), 8):
            jobs.append((v['h_exec'], idx, big, big, bf[i:i + 8], os.path.join(ck.workdir, 'w%d' % idx)))
            idx += 1
    results = pmap(run_chunk_resilient, jobs)
    evals = 0
    outcomes = set()
    n_fits = n_over = 0
    samples = []
    for job, (calls, aborts, pos) in zip(jobs, results):
        _, i, dsmax, logmax, fmts, w = job
        env = envfor(dsmax)
        for f, r in aborts:
            ck.violation('C05:abort:ds=%d:log=%d:fmt=%s' % (dsmax, logmax, f[:60].decode('latin-1')),
                         {'dsmax': dsmax, 'logmax': logmax, 'format': f.decode('latin-1'), 'rc': r['rc'], 'signal': r['signal'],
                          'sanitizer': r['san'][:1], 'stderr': r['stderr'][-600:]})
        if pos < len(fmts):
            ck.capped = True
        for f, j in zip(fmts, calls):
            evals += 1
            if j is None:
                continue
            data = H.sink_bytes(j['logdelta'])
            if data is None:
                raise RuntimeError('log delta too large for hexmax')
            if j['rec_calls'] != 1:
                ck.violation('C05:exec_not_reached', {'format': f.decode('latin-1')})
            if data == b'':
                msg = b''   # empty message -> no record
            else:
                if not data.endswith(b'\n') or data.count(b'\n') != 1:
                    ck.violation('C05:record_framing:ds=%d:log=%d' % (dsmax, logmax), {'format': f.decode('latin-1'), 'data': data[:200].decode('latin-1')})
                    continue
                msg = data[:-1]
            bad, exp, status, fits = judge(f, msg, dsmax, logmax, env, known)
            n_fits += fits
            n_over += (not fits)
            outcomes.add((status, fits, H.fnv(msg)))
            if bad:
                ck.violation('C05:%s:ds=%d:log=%d:fmt=%s' % ('+'.join(re.sub(r'\(.*?\)', '', b) for b in bad), dsmax, logmax, f[:50].decode('latin-1')),
                             {'format': f.decode('latin-1'), 'dsmax': dsmax, 'logmax': logmax, 'failed': bad, 'expected_len': len(exp), 'observed_len': len(msg),
                              'expected_head': exp[:120].decode('latin-1'), 'observed_head': msg[:120].decode('latin-1'), 'status': status, 'fits': fits})
            if len(samples) < 5 and evals % 7919 == 3:
                samples.append({'format': f[:80].decode('latin-1'), 'dsmax': dsmax, 'logmax': logmax, 'fits': fits, 'status': status, 'msg_len': len(msg)})
    # ---- phase 2: the two template consumers with fixed limits (syslog ident 255, output path)
    t_evals, t_out = template_phase(ck, v, known)
    evals += t_evals
    outcomes |= t_out
    # ---- phase 3: data sources with their own joining/truncation logic, natural output around each limit
    n3, o3 = native_limit_phase(ck, v)
    evals += n3
    outcomes |= o3
    ck.assumptions += ['formats longer than %d bytes cannot be put in the configuration file (inih line limit) and are skipped: %d' % (VALUE_MAX, skipped),
                       'after an unknown tag only the prefix up to the error text is compared']
    ck.coverage(states=len(outcomes), transitions=evals, traces_validated_against_impl=evals, evaluations=evals, distinct_nontrivial=len(outcomes),
                rule='every token sequence up to the bound x limit pair; distinct = distinct (status, fits, message) observations',
                formats_per_limit_pair={'/'.join(map(str, k)): n for k, n in per_limit.items()}, cases_where_expansion_fits=n_fits, cases_over_a_limit=n_over,
                skipped_too_long=skipped, samples=samples or [{'note': 'none'}])
