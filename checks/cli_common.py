"""Shared by C18/C19: file alphabet for ld.so.preload, batch execution of the real snoopyctl, reference predicates."""
import os, re, itertools, subprocess
from engine import build
from engine.common import VERIF, BUILD, AUX, sh, pmap, CLEAN_ENV

NATIVE = os.path.join(VERIF, 'native')
NAME = b'libsnoopy.so'


def setup(ck, san='asan'):
    cli = build.build_cli('%s-cli' % ck.id.lower(), san=san)
    d = AUX
    os.makedirs(d, exist_ok=True)
    hcli = os.path.join(d, 'h_cli')
    r = sh(['gcc', '-O1', '-g', os.path.join(NATIVE, 'h_cli.c'), '-o', hcli])
    if r.returncode:
        raise build.BuildError(r.stderr.decode()[:2000])
    libdir = os.path.join(ck.workdir, 'usr/lib')
    os.makedirs(libdir, exist_ok=True)
    lib = os.path.join(libdir, 'libsnoopy.so')
    open(lib, 'wb').close()
    return cli, hcli, lib.encode()


def line_alphabet(LIB):
    return [LIB, LIB + b' ', LIB + b'\t', LIB + b' # c', LIB + b'#c', LIB + b' /usr/lib/libfoo.so', b'/usr/lib/libfoo.so ' + LIB, b'/usr/lib/libfoo.so',
            b'/opt/other/libsnoopy.so', LIB + b'x', b'/pre' + LIB, b'# c', b'# ' + LIB, b'# libsnoopy.so libsnoopy.so', b'', LIB + b'\r',
            LIB + b'.2', b'libsnoopy.so', b'# 5% of %s %d %20p', LIB + b'\t/usr/lib/libbar.so # c',
            # a comment line longer than any fixed look-back window, mentioning the library near its end
            b'# ' + b'x' * 3000 + b' libsnoopy.so',
            # own entry sharing its line with another (foreign) snoopy instance
            LIB + b' /opt/other/libsnoopy.so',
            # the path pasted twice without a separator: starts with the entry, but is a different (foreign) library path
            LIB + LIB, LIB + LIB + b' # c',
            # one line that alone makes the file larger than 10 KiB (beyond any "small file" helper)
            b'# ' + b'y' * 11000,
            # comments that do not start in column one (for the loader a '#' starts a comment wherever it stands)
            b' # ' + LIB, b'\t# libsnoopy.so is switched off',
            # the own entry as a token that does not start in column one: indented, after / between other libraries, twice on one line
            # another library's entry whose trailing comment mentions a libsnoopy.so / the own path (dead text for the loader)
            b'/usr/lib/libfoo.so # libsnoopy.so used to be here', b'/usr/lib/libfoo.so # was ' + LIB,
            # comments that name the own path twice behind one '#', the second time as a whole token
            b'# moved ' + LIB + b'.old to ' + LIB, b'/usr/lib/libfoo.so # not ' + LIB + b' ' + LIB,
            b' ' + LIB, b'\t' + LIB + b' # c', b'/usr/lib/libfoo.so ' + LIB + b' /usr/lib/libbar.so', b'/usr/lib/libfoo.so\t' + LIB + b' # c', LIB + b' ' + LIB]


def files(LIB, maxlines, extra=True):
    A = line_alphabet(LIB)
    out = [None, b'']
    for n in range(1, maxlines + 1):
        for combo in itertools.product(A, repeat=n):
            body = b'\n'.join(combo)
            out.append(body + b'\n')
            out.append(body)
    # dedupe, keep order
    seen, res = set(), []
    for f in out:
        if f not in seen:
            seen.add(f)
            res.append(f)
    return res


def run_batch(ck, cli, hcli, lib, cases, tag, n=16):
    """cases: list of (content|None, seq).  returns list of list of (rc, content|None, okflag).  Sequences that remove the library file
    (x) must run with n=1: the library path is shared by all chunks."""
    size = (len(cases) + n - 1) // n
    chunks = [cases[i:i + size] for i in range(0, len(cases), size)]

    def one(a):
        i, ch = a
        pf = os.path.join(ck.workdir, '%s-%d.preload' % (tag, i))
        inp = ''.join('%s %s\n' % ('-' if c is None else (c.hex() if c else ''), s) for c, s in ch)
        # empty content is encoded as empty hex -> distinguish from absent
        env = dict(CLEAN_ENV, ASAN_OPTIONS='detect_leaks=0:exitcode=99', UBSAN_OPTIONS='halt_on_error=1:exitcode=98')
        r = sh([hcli, cli, pf, lib.decode()], input=inp.encode(), env=env)
        res = []
        for l in r.stdout.decode().splitlines():
            steps = []
            for tok in l.split():
                rc, hx, ok = tok.split(':')
                steps.append((int(rc), None if hx == '-' else (b'' if hx == '.' else bytes.fromhex(hx)), ok == '1'))
            res.append(steps)
        return res
    out = []
    for r in pmap(one, list(enumerate(chunks))):
        out += r
    return out


def lines_of(content):
    return (content or b'').split(b'\n')


def is_comment(line):
    return line.lstrip(b' \t')[:1] == b'#'


def tokens(line):
    """library tokens of a line as the dynamic loader sees them: the part before a '#', split at blanks and tabs (a CR is part of a token)"""
    return [t for t in re.split(rb'[ \t]+', line.split(b'#', 1)[0]) if t]


def own_entry_line(line, LIB):
    """the library's own path is one of the line's active tokens (wherever it stands on the line)"""
    return LIB in tokens(line)


def active_mentions(content):
    """lines that mention a libsnoopy.so in their active part (in front of a '#'): a mention inside a trailing comment is as dead as one in a comment line"""
    return [l for l in lines_of(content) if not is_comment(l) and NAME in l.split(b'#', 1)[0]]


def huge_file_cases(ck, cli, LIB):
    """Preload files whose size does not fit an int (sparse: a head, a hole, another library's entry as the very last line).  For each
    (size, command): afterwards the file is either untouched (size, head and tail) or it is the old content plus / minus exactly the own entry;
    in particular the last line - somebody else's library - is still the last foreign line.  Returns [(label, [problems])]."""
    out = []
    tail = b'/usr/lib/liblast.so\n'
    for cmd in ('enable', 'disable'):
        head = (LIB + b'\n' if cmd == 'disable' else b'') + b'/usr/lib/libfirst.so\n'
        for label, size in (('2^32+head', 2 ** 32 + len(head)), ('2^32', 2 ** 32), ('2^31+5', 2 ** 31 + 5), ('2^31-1', 2 ** 31 - 1), ('2^33+head', 2 ** 33 + len(head))):
            pf = os.path.join(ck.workdir, 'huge.preload')
            for f in os.listdir(ck.workdir):
                if f.startswith('huge.preload'):
                    os.unlink(os.path.join(ck.workdir, f))
            with open(pf, 'wb') as f:
                f.write(head)
                f.truncate(size)
                f.seek(size - len(tail))
                f.write(tail)
            env = dict(CLEAN_ENV, SNOOPY_TEST_LD_SO_PRELOAD_PATH=pf, SNOOPY_TEST_LIBSNOOPY_SO_PATH=LIB.decode(), ASAN_OPTIONS='detect_leaks=0:exitcode=99:allocator_may_return_null=1')
            r = sh([cli, cmd], env=env, timeout=600)
            bad = []
            try:
                st = os.stat(pf)
                with open(pf, 'rb') as f:
                    h2 = f.read(len(head) + len(LIB) + 2)
                    f.seek(max(0, st.st_size - len(tail) - len(LIB) - 2))
                    t2 = f.read()
            except OSError:
                st, h2, t2 = None, b'', b''
            untouched = st is not None and st.st_size == size and h2.startswith(head) and t2.endswith(tail)
            if cmd == 'enable':
                changed_ok = st is not None and st.st_size == size + len(LIB) + 1 and h2.startswith(head) and t2.endswith(tail + LIB + b'\n')
            else:
                changed_ok = st is not None and st.st_size == size - len(LIB) - 1 and h2.startswith(head[len(LIB) + 1:]) and t2.endswith(tail)
            if r.returncode >= 98 and r.returncode != 127:
                bad.append('crash_rc%d' % r.returncode)
            if r.returncode != 0 and not untouched:
                bad.append('refused_but_modified')
            if r.returncode == 0 and not (untouched or changed_ok):
                bad.append('reported_success_but_file_is_neither_old_nor_new:size_%s_to_%s:last_foreign_entry_%s' % (size, st.st_size if st else None, 'kept' if tail in t2 else 'LOST'))
            if r.returncode == 0 and untouched:
                bad.append('reported_success_without_doing_anything')
            out.append(('%s:file_of_%s_bytes' % (cmd, label), bad))
            for f in os.listdir(ck.workdir):
                if f.startswith('huge.preload'):
                    os.unlink(os.path.join(ck.workdir, f))
    return out
