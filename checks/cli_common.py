"""Shared by C18/C19: file alphabet for ld.so.preload, batch execution of the real snoopyctl, reference predicates."""
import os, itertools, subprocess
from engine import build
from engine.common import VERIF, BUILD, AUX, sh, pmap, CLEAN_ENV

NATIVE = os.path.join(VERIF, 'native')
NAME = b'libsnoopy.so'


def setup(ck, san='asan'):
    cli = build.build_cli('%s-cli' % ck.id.lower(), san=san)
    d = AUX
    os.makedirs(d, exist_ok=True)
    hcli = os.path.join(d, 'h_cli')
    r = sh(['gcc', '-O1', '-g', os.path.join(NATIVE, 'h_cli.c'), '-o', hcli])
    if r.returncode:
        raise build.BuildError(r.stderr.decode()[:2000])
    libdir = os.path.join(ck.workdir, 'usr/lib')
    os.makedirs(libdir, exist_ok=True)
    lib = os.path.join(libdir, 'libsnoopy.so')
    open(lib, 'wb').close()
    return cli, hcli, lib.encode()


def line_alphabet(LIB):
    return [LIB, LIB + b' ', LIB + b'\t', LIB + b' # c', LIB + b'#c', LIB + b' /usr/lib/libfoo.so', b'/usr/lib/libfoo.so ' + LIB, b'/usr/lib/libfoo.so',
            b'/opt/other/libsnoopy.so', LIB + b'x', b'/pre' + LIB, b'# c', b'# ' + LIB, b'# libsnoopy.so libsnoopy.so', b'', LIB + b'\r',
            LIB + b'.2', b'libsnoopy.so', b'# 5% of %s %d %20p', LIB + b'\t/usr/lib/libbar.so # c',
            # a comment line longer than any fixed look-back window, mentioning the library near its end
            b'# ' + b'x' * 3000 + b' libsnoopy.so',
            # own entry sharing its line with another (foreign) snoopy instance
            LIB + b' /opt/other/libsnoopy.so',
            # the path pasted twice without a separator: starts with the entry, but is a different (foreign) library path
            LIB + LIB, LIB + LIB + b' # c',
            # one line that alone makes the file larger than 10 KiB (beyond any "small file" helper)
            b'# ' + b'y' * 11000,
            # comments that do not start in column one (for the loader a '#' starts a comment wherever it stands)
            b' # ' + LIB, b'\t# libsnoopy.so is switched off']


def files(LIB, maxlines, extra=True):
    A = line_alphabet(LIB)
    out = [None, b'']
    for n in range(1, maxlines + 1):
        for combo in itertools.product(A, repeat=n):
            body = b'\n'.join(combo)
            out.append(body + b'\n')
            out.append(body)
    # dedupe, keep order
    seen, res = set(), []
    for f in out:
        if f not in seen:
            seen.add(f)
            res.append(f)
    return res


def run_batch(ck, cli, hcli, lib, cases, tag, n=16):
    """cases: list of (content|None, seq).  returns list of list of (rc, content|None, okflag).  Sequences that remove the library file
    (x) must run with n=1: the library path is shared by all chunks."""
    size = (len(cases) + n - 1) // n
    chunks = [cases[i:i + size] for i in range(0, len(cases), size)]

    def one(a):
        i, ch = a
        pf = os.path.join(ck.workdir, '%s-%d.preload' % (tag, i))
        inp = ''.join('%s %s\n' % ('-' if c is None else (c.hex() if c else ''), s) for c, s in ch)
        # empty content is encoded as empty hex -> distinguish from absent
        env = dict(CLEAN_ENV, ASAN_OPTIONS='detect_leaks=0:exitcode=99', UBSAN_OPTIONS='halt_on_error=1:exitcode=98')
        r = sh([hcli, cli, pf, lib.decode()], input=inp.encode(), env=env)
        res = []
        for l in r.stdout.decode().splitlines():
            steps = []
            for tok in l.split():
                rc, hx, ok = tok.split(':')
                steps.append((int(rc), None if hx == '-' else (b'' if hx == '.' else bytes.fromhex(hx)), ok == '1'))
            res.append(steps)
        return res
    out = []
    for r in pmap(one, list(enumerate(chunks))):
        out += r
    return out


def lines_of(content):
    return (content or b'').split(b'\n')


def is_comment(line):
    return line.lstrip(b' \t')[:1] == b'#'


def own_entry_line(line, LIB):
    return line.startswith(LIB) and (len(line) == len(LIB) or line[len(LIB):len(LIB) + 1] in (b' ', b'\t', b'#'))


def active_mentions(content):
    return [l for l in lines_of(content) if not is_comment(l) and NAME in l]
