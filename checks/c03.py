"""C03 - logging failures never block, signal or abort the exec.

Stateless exploration of the production wrapper under a ptrace executor: bound 0 records the system
calls issued between wrapper entry and the real exec; bound 1 re-runs the call once per
(call position, answer) over the fault menu of that call's class; bound 2 (thorough) injects every
pair on the richest configurations (re-tracing after the first fault because the tail changes).
Plus real sink states without injection (absent, unwritable, directory, full unread queue, ...).
"""
import os, socket, json, shutil, errno as E
from engine import sysx as X, harness as H
from engine.common import pmap

META = {
    'level': 'fault_enumeration',
    'technique': 'deviation-bounded exhaustive fault injection at the system-call boundary (ptrace), bound 1 complete / bound 2 on rich configs, plus constructed sink states',
    'text': 'Every I/O system call issued between wrapper entry and the real exec (per output type, per format class) is failed with every errno of its class menu, shortened, or answered with EOF, '
            'one deviation at a time (all single faults; all pairs on the richest configurations in thorough). After each run: the recorder was reached exactly once with the scripted result, '
            'no signal-delivery stop occurred, no call blocked, the process exited normally, no sanitizer report.'
            " Sink states include the caller's own stdout/stderr (reader gone, full, nearly full, stopped terminal), a log path that is a FIFO nobody reads, a log file flock()ed or leased by another process, file-size limits, controlling-terminal foreground/background, and blocked-and-pending caller signals.",
    'note': 'mmap/brk/futex (allocation, outside the domain) are never faulted. Faults are injected at the kernel boundary, so libc retry loops are exercised as in production. '
            'A broken stdout/stderr pipe is not among the sink states the property lists and is not constructed.',
}

SKIP = {'mmap', 'munmap', 'brk', 'mprotect', 'futex', 'madvise', 'getpid', 'getuid', 'geteuid', 'getgid', 'getegid', 'getppid', 'gettid', 'getsid', 'getpgrp', 'getpgid', 'rt_sigprocmask', 'rt_sigaction',
        'getresuid', 'getresgid', 'time', 'gettimeofday', 'clock_gettime', 'sigaltstack', 'prlimit64', 'sched_getaffinity', 'sysinfo', 'uname', 'getrandom'}


def menu(name, tier):
    full = tier == 'thorough'
    if name in ('open', 'openat'):
        e = [E.ENOENT, E.EACCES, E.EMFILE, E.ENFILE, E.EINTR, E.EIO, E.ELOOP]
        return [('fail', x) for x in (e if full else e[:4] + [E.EINTR])]
    if name in ('read', 'pread64', 'readv', 'recvfrom', 'recvmsg', 'getdents64'):
        e = [E.EIO, E.EINTR, E.EAGAIN]
        return [('fail', x) for x in e] + [('retzero', 0), ('short', 'half'), ('short', 1)]
    if name in ('write', 'pwrite64', 'writev'):
        e = [E.ENOSPC, E.EIO, E.EDQUOT, E.EPIPE, E.EAGAIN, E.EINTR]
        return [('fail', x) for x in (e if full else [E.ENOSPC, E.EIO, E.EAGAIN, E.EINTR])] + [('short', 'half'), ('short', 1)]
    if name == 'close':
        return [('fail', E.EIO), ('fail', E.EINTR)]
    if name in ('stat', 'fstat', 'lstat', 'newfstatat', 'statx', 'readlink', 'readlinkat', 'getcwd', 'ioctl', 'lseek', 'access', 'faccessat', 'faccessat2', 'fcntl', 'uname', 'chdir'):
        e = [E.ENOENT, E.EACCES, E.ENOTTY, E.ERANGE, E.EIO]
        return [('fail', x) for x in (e if full else [E.ENOENT, E.EACCES, E.EIO])]
    if name == 'socket':
        return [('fail', x) for x in (E.EMFILE, E.EAFNOSUPPORT, E.ENOBUFS)]
    if name == 'connect':
        return [('fail', x) for x in (E.ENOENT, E.ECONNREFUSED, E.EACCES, E.EAGAIN, E.EPROTOTYPE)]
    if name in ('sendto', 'sendmsg'):
        return [('fail', x) for x in (E.EAGAIN, E.ECONNREFUSED, E.ENOBUFS, E.EMSGSIZE, E.ENOTCONN, E.EPIPE, E.EINTR)]
    return [('fail', E.EIO), ('fail', E.EINTR)]


ALL_DS = ('%{cgroup:name=systemd}|%{cgroup:0}|%{cmdline}|%{cwd}|%{datetime}|%{domain}|%{egid}|%{egroup}|%{env:A}|%{env_all}|%{euid}|%{eusername}|%{filename}|%{gid}|%{group}|%{hostname}|%{ipaddr}|'
          '%{login}|%{pid}|%{ppid}|%{rpname}|%{sid}|%{snoopy_configure_command}|%{snoopy_literal:x}|%{snoopy_threads}|%{snoopy_version}|%{systemd_unit_name}|%{tid}|%{tid_kernel}|%{timestamp}|'
          '%{timestamp_ms}|%{timestamp_us}|%{tty}|%{tty_uid}|%{tty_username}|%{uid}|%{username}')
ALL_FILTERS = 'exclude_spawns_of:zz,yy;exclude_uid:5;only_root;only_uid:0;noop'


def configs(tier):
    """name -> (config text with @W@, needs)"""
    c = {}
    outs = {'file': 'file:@W@/log', 'devnull': 'devnull', 'devtty': 'devtty', 'socket': 'socket:@W@/sock', 'devlog': 'devlog', 'stdout': 'stdout', 'stderr': 'stderr'}
    for k, o in outs.items():
        c[k + '/default'] = '[snoopy]\noutput = %s\n' % o
    c['file/allds'] = '[snoopy]\nmessage_format = %s\noutput = file:@W@/log\n' % ALL_DS
    c['file/chain'] = '[snoopy]\nfilter_chain = %s\noutput = file:@W@/log\n' % ALL_FILTERS
    c['devlog/allds+ident'] = '[snoopy]\nmessage_format = %s\nsyslog_ident = %%{username}-%%{tty}\noutput = devlog\nerror_logging = yes\n' % ALL_DS
    c['file/errlog'] = '[snoopy]\nerror_logging = yes\nmessage_format = %{nosuch}\noutput = file:@W@/nodir/log\n'
    c['socket/errlog'] = '[snoopy]\nerror_logging = yes\nmessage_format = %{cgroup:zz} %{failure}\noutput = socket:@W@/absent\n'
    if tier == 'thorough':
        for k, o in outs.items():
            c[k + '/allds'] = '[snoopy]\nmessage_format = %s\noutput = %s\n' % (ALL_DS, o)
        c['file/tplpath'] = '[snoopy]\noutput = file:@W@/log-%{username}-%{datetime:%Y}\n'
    return c


HCTTY = [None]


class Env:
    """per-run sandbox directory with bound sockets"""

    def __init__(self, w):
        self.w = w
        shutil.rmtree(w, ignore_errors=True)
        os.makedirs(w)
        os.chmod(w, 0o755)
        self.socks = []
        for n in ('sock', 'devlog'):
            s = socket.socket(socket.AF_UNIX, socket.SOCK_DGRAM)
            s.bind(os.path.join(w, n))
            os.chmod(os.path.join(w, n), 0o666)
            self.socks.append(s)

    def close(self):
        for s in self.socks:
            s.close()
        shutil.rmtree(self.w, ignore_errors=True)


def one_run(sx, h_one, w, cfgtext, opts, uid=0, prep=None, calltimeout=2500, totaltimeout=6000, std_state=None, msglen=None, ncalls=1, stdin_pty=False, fsize=None, ctty=None, pending=None, utmp=None):
    env = Env(w)
    try:
        if prep:
            prep(env)
        ini = os.path.join(w, 'snoopy.ini')
        open(ini, 'w').write(cfgtext.replace('@W@', w))
        res = os.path.join(w, 'res.json')
        if uid:
            open(res, 'w').close()
            os.chmod(res, 0o666)
            os.chmod(w, 0o777)
        rep = X.run(sx, w, prefix=([HCTTY[0], ctty, '--'] if ctty else []), prog_argv=[h_one, ini, res, str(uid), str(ncalls), os.path.join(w, 'devlog')] + ([str(msglen)] if msglen else []), env=dict(H.san_env(w), VERIF_STD_STATE=std_state or '', **({'VERIF_STDIN_PTY': '1'} if stdin_pty else {}), **({'VERIF_RLIMIT_FSIZE': str(fsize)} if fsize is not None else {}), **({'VERIF_PENDING': pending} if pending else {}), **({'VERIF_UTMP_PATH': os.path.join(w, utmp), 'VERIF_STDIN_PTY': '1'} if utmp else {})), opts=list(opts) + ['--skipalloc', '--calltimeout', str(calltimeout), '--totaltimeout', str(totaltimeout)], timeout=totaltimeout / 1000 + 30)
        try:
            rep['result'] = json.load(open(res))
        except Exception:
            rep['result'] = None
        return rep
    finally:
        env.close()


def verdict(rep):
    bad = []
    if rep.get('diverged'):
        return ['HARNESS:diverged']
    if rep.get('error'):
        bad.append('harness:' + rep['error'])
    if rep.get('blocked_call', -2) != -2:
        bad.append('blocked_in_call_%s' % rep['blocked_call'])
    if rep.get('total_timeout'):
        bad.append('hang_or_spin')
    if rep.get('runaway'):
        bad.append('runaway_more_than_20000_syscalls')
    if rep.get('signals'):
        bad.append('signal_' + '_'.join(map(str, sorted(set(rep['signals'])))))
    if rep.get('term_sig'):
        bad.append('killed_by_signal_%d' % rep['term_sig'])
    if rep.get('san'):
        bad.append('sanitizer')
    if not bad:
        if not rep.get('exited') or rep.get('exit_code') != 0:
            bad.append('abnormal_exit_%s' % rep.get('exit_code'))
        elif not rep.get('result') or not rep['result'].get('ok'):
            bad.append('exec_not_reached_or_result_changed')
    return bad


def opts_for(dev, call, guard=True):
    return (['--expectnr', str(call['nr'])] if guard else []) + _opts_for(dev, call)


def _opts_for(dev, call):
    kind, val = dev
    i = call['i']
    if kind == 'fail':
        if call['name'] == 'close':
            return ['--failafter', '%d:%d' % (i, val)]     # Linux releases the descriptor even when close() reports an error
        return ['--fail', '%d:%d' % (i, val)]
    if kind == 'retzero':
        return ['--retzero', str(i)]
    if kind == 'sticky':
        return ['--failfrom', '%d:%d' % (i, val)]
    n = call.get('a', [0, 0, 0])[2]
    if val == 'half':
        val = max(1, n // 2)
    return ['--short', '%d:%d' % (i, val)]


def run(ck):
    sx = X.build_sysx()
    v = X.build_h_one('c03-ts-asan')
    HCTTY[0] = X.build_h_ctty()
    cfg = configs(ck.tier)
    evals = 0
    outcomes = set()
    samples = []
    counter = [0]
    diverged = [0]

    def wdir():
        counter[0] += 1
        return os.path.join(ck.workdir, 'r%d' % counter[0])
    # a configuration that is run with stdin on a terminal and a utmp file of three records in place: the terminal data sources and the library's own
    # utmp reader (open / fstat / read / close) are then part of the window, and every one of their calls is failed, shortened or answered with EOF in turn
    def utmp_file(env):
        rec = bytearray(384)
        rec[0:2] = (7).to_bytes(2, 'little')                      # ut_type = USER_PROCESS
        rec[8:8 + 5] = b'pts/9'                                   # ut_line
        open(os.path.join(env.w, 'utmp'), 'wb').write(bytes(rec) * 3)
    cfg['file/terminal+utmp'] = '[snoopy]\nmessage_format = %{tty}|%{tty_uid}|%{tty_username}|%{ipaddr}|%{login}|%{cmdline}\nfilter_chain = only_tty\noutput = file:@W@/log\n'
    cfg_extra = {'file/terminal+utmp': dict(prep=utmp_file, utmp='utmp')}
    # ---- bound 0: traces
    names = list(cfg)
    traces = pmap(lambda n: one_run(sx, v['h_one'], os.path.join(ck.workdir, 't-' + n.replace('/', '_')), cfg[n], [], **cfg_extra.get(n, {})), names)
    jobs = []
    for n, t in zip(names, traces):
        evals += 1
        b = verdict(t)
        if b:
            ck.violation('C03:%s:cfg=%s:no_fault' % ('+'.join(b), n), {'config': cfg[n], 'report': {k: t.get(k) for k in ('signals', 'exit_code', 'term_sig', 'blocked_call', 'result')}, 'sanitizer': t['san'][:1]})
        if b:
            continue          # already violated without any fault: no point in enumerating faults on a broken baseline
        if len(t['calls']) > 800:
            ck.capped = True
        for c in t['calls'][:800]:
            if c['name'] in SKIP:
                continue
            sticky = [('sticky', E.EINTR), ('sticky', E.EAGAIN)] if c['name'] in ('open', 'openat', 'read', 'write', 'writev', 'close', 'connect', 'sendto', 'socket', 'newfstatat', 'ioctl', 'lseek') else []
            for dev in menu(c['name'], ck.tier) + sticky:
                if dev[0] == 'short' and c['name'] not in ('read', 'write', 'sendto', 'pread64', 'pwrite64'):
                    continue
                jobs.append((n, c, dev))
    # ---- bound 1: every (position, answer)
    def do(job):
        n, c, dev = job
        return one_run(sx, v['h_one'], wdir(), cfg[n], opts_for(dev, c), **cfg_extra.get(n, {}))
    res = pmap(do, jobs)
    retry = []
    for job, rep in zip(jobs, res):
        evals += 1
        n, c, dev = job
        b = verdict(rep)
        if b == ['HARNESS:diverged']:
            # the k-th call of this run is not the call the trace saw (run-to-run variation): re-run once, never a verdict
            rep = one_run(sx, v['h_one'], wdir(), cfg[n], opts_for(dev, c), **cfg_extra.get(n, {}))
            b = verdict(rep)
            if b == ['HARNESS:diverged']:
                diverged[0] += 1
                continue
        outcomes.add((n, c['name'], c.get('path', '')[-30:], dev, tuple(b), rep.get('ncalls')))
        if b and ('hang_or_spin' in b or any(x.startswith('blocked') for x in b)):
            retry.append(job)      # re-run alone with a 5x limit before calling it a hang
            continue
        if b:
            ck.violation('C03:%s:cfg=%s:call=%s(%s):answer=%s' % ('+'.join(b), n, c['name'], c.get('path', '')[-40:], '%s:%s' % dev),
                         {'config': cfg[n], 'faulted_call': c, 'deviation': dev, 'report': {k: rep.get(k) for k in ('signals', 'exit_code', 'term_sig', 'blocked_call', 'total_timeout', 'result')},
                          'sanitizer': rep['san'][:1], 'stderr': rep.get('stderr', '')[-300:], 'replay': 'sysx %s -- h_one' % ' '.join(opts_for(dev, c))})
        if len(samples) < 5 and evals % 211 == 3:
            samples.append({'config': n, 'call': c['name'], 'path': c.get('path'), 'deviation': list(dev), 'verdict': b or 'ok'})
    for job in retry:
        n, c, dev = job
        rep = one_run(sx, v['h_one'], wdir(), cfg[n], opts_for(dev, c), calltimeout=12000, totaltimeout=30000, **cfg_extra.get(n, {}))
        b = verdict(rep)
        if b:
            ck.violation('C03:%s:cfg=%s:call=%s(%s):answer=%s' % ('+'.join(b), n, c['name'], c.get('path', '')[-40:], '%s:%s' % dev),
                         {'config': cfg[n], 'faulted_call': c, 'deviation': dev, 'confirmed_alone_with_5x_limit': True, 'report': {k: rep.get(k) for k in ('signals', 'exit_code', 'term_sig', 'blocked_call', 'total_timeout', 'result')}})
    # ---- bound 2 (thorough): all pairs on the richest configurations
    pairs_done = 0
    if ck.tier == 'thorough':
        rich = ['file/allds', 'devlog/allds+ident', 'file/chain']
        first = [(n, c, dev) for (n, c, dev) in jobs if n in rich and dev[0] == 'fail' and dev[1] in (E.ENOENT, E.EIO, E.EAGAIN, E.ENOSPC, E.ECONNREFUSED)]

        def second_level(job):
            n, c, dev = job
            o1 = opts_for(dev, c)
            t = one_run(sx, v['h_one'], wdir(), cfg[n], o1)
            out = []
            for c2 in t['calls']:
                if c2['i'] <= c['i'] or c2['name'] in SKIP:
                    continue
                m2 = [d for d in menu(c2['name'], 'quick') if d[0] == 'fail'][:2]
                for d2 in m2:
                    rep = one_run(sx, v['h_one'], wdir(), cfg[n], o1 + opts_for(d2, c2, guard=False))
                    out.append((c2, d2, rep))
            return out
        for job, lst in zip(first, pmap(second_level, first)):
            if ck.out_of_time():
                break
            n, c, dev = job
            for c2, d2, rep in lst:
                evals += 1
                pairs_done += 1
                b = verdict(rep)
                if b == ['HARNESS:diverged']:
                    diverged[0] += 1
                    continue
                outcomes.add((n, 'pair', c['name'], dev, c2['name'], d2, tuple(b)))
                if b:
                    ck.violation('C03:%s:cfg=%s:pair=%s:%s+%s:%s' % ('+'.join(b), n, c['name'], dev[1], c2['name'], d2[1]),
                                 {'config': cfg[n], 'first': c, 'first_dev': dev, 'second': c2, 'second_dev': d2, 'sanitizer': rep['san'][:1]})
    # ---- consecutive calls in one process, stdin on a terminal (tty / utmp lookups take their real paths): whatever a call leaves behind
    # (a lock, a descriptor, a signal disposition) must not block or signal the calls after it
    for n, rep in zip(names, pmap(lambda n: one_run(sx, v['h_one'], wdir(), cfg[n], [], ncalls=3, stdin_pty=True), names)):
        evals += 1
        b = verdict(rep)
        if b and ('hang_or_spin' in b or any(x.startswith('blocked') for x in b)):
            rep = one_run(sx, v['h_one'], wdir(), cfg[n], [], ncalls=3, stdin_pty=True, calltimeout=12000, totaltimeout=30000)
            b = verdict(rep)
        outcomes.add((n, 'three_calls_on_a_tty', tuple(b)))
        if b:
            ck.violation('C03:%s:cfg=%s:three_consecutive_calls_stdin_tty' % ('+'.join(b), n), {'config': cfg[n], 'report': {k: rep.get(k) for k in ('signals', 'exit_code', 'term_sig', 'blocked_call', 'total_timeout', 'result')}, 'sanitizer': rep['san'][:1]})
    # ---- real sink states, no injection
    def full_queue(env, which):
        p = os.path.join(env.w, which)
        s = socket.socket(socket.AF_UNIX, socket.SOCK_DGRAM)
        s.setblocking(False)
        try:
            while True:
                s.sendto(b'x' * 100, p)
        except (BlockingIOError, OSError):
            pass
        s.close()

    def closed_sock(env, which):
        i = 0 if which == 'sock' else 1
        env.socks[i].close()
        env.socks[i] = socket.socket(socket.AF_UNIX, socket.SOCK_DGRAM)

    def stream_sock(env, which):
        i = 0 if which == 'sock' else 1
        env.socks[i].close()
        os.unlink(os.path.join(env.w, which))
        s = socket.socket(socket.AF_UNIX, socket.SOCK_STREAM)
        s.bind(os.path.join(env.w, which))
        s.listen(1)
        env.socks[i] = s

    def deaf_stream(env, which):
        # a stream listener that never accepts and whose accept queue is already full: a blocking connect() to it never returns
        i = 0 if which == 'sock' else 1
        env.socks[i].close()
        os.unlink(os.path.join(env.w, which))
        s = socket.socket(socket.AF_UNIX, socket.SOCK_STREAM)
        s.bind(os.path.join(env.w, which))
        os.chmod(os.path.join(env.w, which), 0o666)
        s.listen(0)
        env.socks[i] = s
        for _ in range(4):
            c = socket.socket(socket.AF_UNIX, socket.SOCK_STREAM)
            c.setblocking(False)
            try:
                c.connect(os.path.join(env.w, which))
            except (BlockingIOError, OSError):
                pass
            env.socks.append(c)

    def rm_sock(env, which):
        i = 0 if which == 'sock' else 1
        env.socks[i].close()
        os.unlink(os.path.join(env.w, which))
        env.socks[i] = socket.socket(socket.AF_UNIX, socket.SOCK_DGRAM)
    states = []
    for which, cname in (('sock', 'socket/default'), ('devlog', 'devlog/default'), ('devlog', 'devlog/allds+ident'), ('sock', 'socket/errlog')):
        for sn, fn in (('queue_full_unread', full_queue), ('bound_then_closed', closed_sock), ('stream_socket_at_path', stream_sock), ('deaf_stream_listener_with_full_accept_queue', deaf_stream), ('absent', rm_sock)):
            states.append(('%s:%s' % (cname, sn), cfg[cname].replace('@W@/absent', '@W@/sock'), 0, (lambda env, fn=fn, which=which: fn(env, which))))
    fcfg = cfg['file/default']
    states.append(('file:parent_dir_absent', fcfg.replace('@W@/log', '@W@/no/such/dir/log'), 0, None))
    states.append(('file:is_directory', fcfg, 0, lambda env: os.mkdir(os.path.join(env.w, 'log'))))
    states.append(('file:not_writable_uid54321', fcfg, 54321, lambda env: (open(os.path.join(env.w, 'log'), 'w').close(), os.chmod(os.path.join(env.w, 'log'), 0o600))))
    states.append(('file:dir_not_writable_uid54321', fcfg.replace('@W@/log', '@W@/sub/log'), 54321, lambda env: (os.mkdir(os.path.join(env.w, 'sub')), os.chmod(os.path.join(env.w, 'sub'), 0o755))))
    states.append(('file:dangling_symlink', fcfg, 0, lambda env: os.symlink('/nonexistent/zz/log', os.path.join(env.w, 'log'))))
    states.append(('file:errlog_on:parent_dir_absent', cfg['file/errlog'], 0, None))
    states.append(('config:unreadable_uid54321', fcfg, 54321, lambda env: None))
    states.append(('file:dev_full', fcfg.replace('@W@/log', '/dev/full'), 0, None))
    # the caller's own stdout / stderr as the sink: reader gone (a write raises SIGPIPE), stream-socket peer gone, pipe full and unread
    for oname in ('stdout', 'stderr'):
        fdn = '1' if oname == 'stdout' else '2'
        for stn in ('gone', 'sockgone', 'full'):
            states.append(('%s:%s_%s' % (oname, 'pipe' if stn != 'sockgone' else 'socket', {'gone': 'reader_gone', 'sockgone': 'peer_gone', 'full': 'full_and_unread'}[stn]),
                           cfg[oname + '/default'], 0, None, '%s:%s' % (stn, fdn)))
    states.append(('file:other_output_but_std_streams_gone', fcfg, 0, None, 'gone:12'))
    # stdout / stderr is a terminal whose output is stopped (flow control) and that nobody reads
    for oname, fdn in (('stdout', '1'), ('stderr', '2')):
        states.append(('%s:terminal_with_output_stopped' % oname, cfg[oname + '/default'], 0, None, 'ttystopped:' + fdn))
    # another process holds an exclusive flock() on the (perfectly writable) log file: a log shipper, a stopped process
    def hold_flock(env):
        import fcntl
        f = open(os.path.join(env.w, 'log'), 'ab')
        fcntl.flock(f, fcntl.LOCK_EX)
        env.socks.append(f)          # kept open (and locked) for the duration of the run; Env.close() closes it
    states.append(('file:log_file_flocked_by_another_process', fcfg, 0, hold_flock))
    # the log path is a FIFO that nobody has open for reading ("not being read"): a plain open() for writing waits for a reader
    states.append(('file:fifo_that_nobody_reads', fcfg, 0, lambda env: os.mkfifo(os.path.join(env.w, 'log'))))
    # another process (a log shipper, a backup agent) holds a lease on the - perfectly writable - log file and does not give it up:
    # a plain open() sleeps until the lease-break time (45 s by default) has passed

    class Holder:
        def __init__(self, p):
            self.p = p

        def close(self):
            self.p.kill()
            self.p.wait()

    def hold_lease(env):
        import subprocess, sys
        lp = os.path.join(env.w, 'log')
        open(lp, 'wb').close()
        code = ('import fcntl, os, signal, sys, time\nsignal.signal(signal.SIGIO, signal.SIG_IGN)\nfd = os.open(sys.argv[1], os.O_RDWR)\n'
                'fcntl.fcntl(fd, fcntl.F_SETLEASE, fcntl.F_WRLCK)\nsys.stdout.write("ok\\n"); sys.stdout.flush()\ntime.sleep(120)\n')
        p = subprocess.Popen([sys.executable, '-c', code, lp], stdout=subprocess.PIPE, stderr=subprocess.PIPE)
        env.socks.append(Holder(p))
        if p.stdout.readline().strip() != b'ok':
            raise RuntimeError('lease holder did not start: %r' % p.stderr.read()[-300:])
    states.append(('file:log_file_leased_by_another_process', fcfg, 0, hold_lease))
    big = '[snoopy]\ndatasource_message_max_length = 20000\nlog_message_max_length = 20000\nmessage_format = %%{env:M}\noutput = %s\n'
    for oname in ('stdout', 'stderr'):
        fdn = '1' if oname == 'stdout' else '2'
        states.append(('%s:pipe_unread_with_one_page_of_room:record_3000' % oname, big % oname, 0, None, 'nearly:' + fdn, 3000))
        states.append(('%s:pipe_unread_with_one_page_of_room:record_10000' % oname, big % oname, 0, None, 'nearly:' + fdn, 10000))
        states.append(('%s:pipe_read_normally:record_10000' % oname, big % oname, 0, None, None, 10000))
    # the caller's RLIMIT_FSIZE (ulimit -f) reached by the log file: an append beyond it raises SIGXFSZ in the writer
    states.append(('file:log_at_the_callers_file_size_limit', fcfg, 0, lambda env: open(os.path.join(env.w, 'log'), 'wb').write(b'x' * 4096), None, None, 4096))
    states.append(('file:record_crosses_the_callers_file_size_limit', fcfg, 0, lambda env: open(os.path.join(env.w, 'log'), 'wb').write(b'x' * 4090), None, None, 4096))
    states.append(('file:callers_file_size_limit_is_zero', fcfg, 0, None, None, None, 0))
    for oname, fdn in (('stdout', '1'), ('stderr', '2')):
        states.append(('%s:regular_file_at_the_callers_file_size_limit' % oname, cfg[oname + '/default'], 0, None, 'file4096:' + fdn, None, 4096))
    # a controlling terminal: devtty output in the foreground (the success path of /dev/tty) and from a background process group of a
    # terminal with TOSTOP (a write raises SIGTTOU, which stops the writer, unless the writer blocks or ignores it)
    for cname in ('devtty/default', 'file/allds'):
        states.append(('%s:controlling_tty_foreground' % cname, cfg[cname], 0, None, None, None, None, 'fg'))
        states.append(('%s:background_process_group_of_a_tostop_tty' % cname, cfg[cname], 0, None, None, None, None, 'bg_tostop'))
    # the caller has SIGPIPE / SIGXFSZ / SIGTTOU / SIGUSR1 blocked with one instance pending: they are the caller's, neither delivered nor swallowed
    for cname in ('file/default', 'stdout/default', 'stderr/default', 'devtty/default', 'devnull/default'):
        states.append(('%s:callers_blocked_signals_pending' % cname, cfg[cname], 0, None, None, None, None, None, '13,25,22,10'))
    states.append(('file:/dev/full:callers_blocked_signals_pending', fcfg.replace('@W@/log', '/dev/full'), 0, None, None, None, None, None, '13,25,22,10'))
    # the utmp file the %{ipaddr} lookup reads (stdin on a terminal): a FIFO nobody writes to; a file another process holds a lease on
    def utmp_fifo(env):
        os.mkfifo(os.path.join(env.w, 'utmp'))

    def utmp_leased(env):
        import subprocess, sys
        up = os.path.join(env.w, 'utmp')
        open(up, 'wb').write(b'\0' * 384 * 3)
        code = ('import fcntl, os, signal, sys, time\nsignal.signal(signal.SIGIO, signal.SIG_IGN)\nfd = os.open(sys.argv[1], os.O_RDWR)\n'
                'fcntl.fcntl(fd, fcntl.F_SETLEASE, fcntl.F_WRLCK)\nsys.stdout.write("ok\\n"); sys.stdout.flush()\ntime.sleep(120)\n')
        p = subprocess.Popen([sys.executable, '-c', code, up], stdout=subprocess.PIPE, stderr=subprocess.PIPE)
        env.socks.append(Holder(p))
        if p.stdout.readline().strip() != b'ok':
            raise RuntimeError('lease holder did not start: %r' % p.stderr.read()[-300:])
    states = [s + (None,) * (9 - len(s)) for s in states]
    states.append(('file/allds:utmp_is_a_fifo_nobody_writes_to', cfg['file/allds'], 0, utmp_fifo, None, None, None, None, None, 'utmp'))
    states.append(('file/allds:utmp_leased_by_another_process', cfg['file/allds'], 0, utmp_leased, None, None, None, None, None, 'utmp'))
    # ... a directory (open succeeds, every read fails with EISDIR); a file that ends in the middle of a record; an empty file
    states.append(('file/allds:utmp_is_a_directory', cfg['file/allds'], 0, lambda env: os.mkdir(os.path.join(env.w, 'utmp')), None, None, None, None, None, 'utmp'))
    states.append(('file/allds:utmp_ends_inside_a_record', cfg['file/allds'], 0, lambda env: open(os.path.join(env.w, 'utmp'), 'wb').write(b'\0' * (384 + 100)), None, None, None, None, None, 'utmp'))
    # ... an endless source in its place (a symbolic link to /dev/zero): every read succeeds, for ever
    states.append(('file/allds:utmp_is_an_endless_device', cfg['file/allds'], 0, lambda env: os.symlink('/dev/zero', os.path.join(env.w, 'utmp')), None, None, None, None, None, 'utmp'))
    states.append(('file/allds:utmp_is_empty', cfg['file/allds'], 0, lambda env: open(os.path.join(env.w, 'utmp'), 'wb').close(), None, None, None, None, None, 'utmp'))
    states = [s + (None,) * (10 - len(s)) for s in states]
    st_res = pmap(lambda s: one_run(sx, v['h_one'], wdir(), s[1], [], uid=s[2], prep=s[3], std_state=s[4], msglen=s[5], fsize=s[6], ctty=s[7], pending=s[8], utmp=s[9]), states)
    for s, rep in zip(states, st_res):
        evals += 1
        b = verdict(rep)
        if s[8] and not b and (rep.get('result') or {}).get('still_pending') != ''.join('%s.' % x for x in sorted(map(int, s[8].split(',')))):
            b = ['callers_pending_signals_changed(%s)' % (rep.get('result') or {}).get('still_pending')]
        outcomes.add(('state', s[0], tuple(b)))
        if b and ('hang_or_spin' in b or any(x.startswith('blocked') for x in b)):
            rep = one_run(sx, v['h_one'], wdir(), s[1], [], uid=s[2], prep=s[3], calltimeout=12000, totaltimeout=30000, std_state=s[4], msglen=s[5], fsize=s[6], ctty=s[7], pending=s[8], utmp=s[9])
            b = verdict(rep)
        if b:
            ck.violation('C03:%s:sink_state=%s' % ('+'.join(b), s[0]), {'state': s[0], 'config': s[1], 'uid': s[2], 'report': {k: rep.get(k) for k in ('signals', 'exit_code', 'term_sig', 'blocked_call', 'total_timeout', 'result')},
                         'sanitizer': rep['san'][:1], 'last_calls': rep.get('calls', [])[-4:]})
    if diverged[0]:
        ck.capped = True
    ck.assumptions += ['allocation failure (mmap/brk) outside the domain', 'single deviations complete; pairs only in thorough on the three richest configurations with a reduced second-level menu']
    ck.coverage(evaluations=evals, distinct_nontrivial=len(outcomes), states=len(outcomes), transitions=evals, traces_validated_against_impl=evals,
                rule='bound 0 trace per configuration; bound 1 = every (call position in the window, answer of the class menu); bound 2 pairs in thorough; constructed sink states. distinct = (config, call, path, answer, verdict, tail length)',
                configurations=len(cfg), single_fault_runs=len(jobs), pair_runs=pairs_done, sink_states=len(states), window_calls={n: t.get('ncalls') for n, t in zip(names, traces)},
                runs_not_evaluated_because_trace_diverged=diverged[0],
                bound_completed=2 if (ck.tier == 'thorough' and not ck.capped) else 1, samples=samples or [{'note': 'none'}])
