"""C09 - concurrent exec calls from threads stay isolated and complete.

Preemption-bounded exhaustive schedule exploration of the IMPLEMENTATION: real pthreads running snoopy's
production wrapper under a cooperative scheduler (native/vsched.c) whose scheduling points are every
pthread_mutex_lock / unlock / pthread_once issued by snoopy (and, in the function-granular pass,
every snoopy function entry).  ASan variant: semantic oracle per execution.  TSan variant: the
same schedules under ThreadSanitizer (hand-offs are invisible to it, so two accesses are ordered
only by the program's own synchronisation).
"""
import os, re, time
from engine import sched as S
from engine.common import NCPU, sh

META = {
    'level': 'model_checking',
    'technique': 'stateless preemption-bounded schedule exploration of the real code under a controlled scheduler (iterative context bounding), ASan and TSan variants',
    'text': 'Every schedule of N threads x K wrapped execve calls with at most B preemptions at synchronisation points is executed on the real library (one process per schedule); state-hashed passes explore ALL interleavings (no preemption bound) up to equality of (thread positions, mutex model, registry list); '
            'per execution: no deadlock, no sanitizer/TSan report, exactly N*K whole records each carrying only its own thread\'s path, arguments and thread id, thread count within [1,N], '
            'registry empty and mutex free after join, a later lone call sees exactly one thread. A function-entry-granular pass explores preemptions inside lock-free stretches '
            '(filter chain evaluation, message formatting) including a dropping chain.',
    'note': 'Sequentially consistent interleavings only; libc internals (stdio, NSS) are not scheduling points. Bounds completed are reported; nothing capped is called exhaustive.',
}

FMT = '%{filename}|%{cmdline}|%{tid}|%{snoopy_threads}|%{login}|%{env:V}|%{username}'
CFG_LOG = '[snoopy]\nmessage_format = ' + FMT + '\nfilter_chain = only_uid:0;exclude_uid:7,8;noop\noutput = file:@W@/log\n'
ALLDS = ('%{cgroup:name=systemd}%{cwd}%{datetime}%{domain}%{egid}%{egroup}%{env_all}%{euid}%{eusername}%{gid}%{group}%{hostname}%{ipaddr}%{pid}%{ppid}%{rpname}%{sid}'
         '%{snoopy_configure_command}%{snoopy_version}%{systemd_unit_name}%{tid_kernel}%{timestamp}%{timestamp_ms}%{timestamp_us}%{tty}%{tty_uid}%{tty_username}%{uid}')
# every data source and every filter on the path (races in rarely used sources); the extra sources sit in a 2nd record field group that the oracle ignores
CFG_ALLDS = '[snoopy]\nmessage_format = ' + FMT + '|' + ALLDS.replace('|', '') + '\nfilter_chain = exclude_spawns_of:zz;exclude_uid:5;only_root;only_tty;only_uid:0;noop\noutput = file:@W@/log\n'
# a date format whose expansion does not fit the data source's buffer (its error path) next to an ordinary one: both run under the library's libc guard
CFG_DTLONG = '[snoopy]\nmessage_format = ' + FMT + '|%{datetime:' + 'p' * 78 + '%Y}%{datetime}\nfilter_chain = only_uid:0;noop\noutput = file:@W@/log\n'
CFG_STDOUT = '[snoopy]\nmessage_format = ' + FMT + '\nfilter_chain = only_uid:0;noop\noutput = stdout\n'
CFG_SOCKABSENT = '[snoopy]\nmessage_format = ' + FMT + '\nfilter_chain = only_uid:0;noop\noutput = socket:@W@/nosock\n'
CFG_STDERR = '[snoopy]\nmessage_format = ' + FMT + '\nfilter_chain = only_uid:0;noop\noutput = stderr\n'
# error logging on and every record overflowing its limit: both threads are inside the error handler's delivery at some point
CFG_ERRLOG = '[snoopy]\nerror_logging = yes\nlog_message_max_length = 255\nmessage_format = ' + FMT + '|' + 'L' * 300 + '%{cmdline}\nfilter_chain = only_uid:0;noop\noutput = file:@W@/log\n'
# a configuration file larger than one stdio buffer (8 KiB of comments between the settings): parsing spans several buffer refills
CFG_BIGFILE = '[snoopy]\nmessage_format = ' + FMT + '\n' + ''.join('; padding line %04d %s\n' % (i, 'p' * 60) for i in range(70)) + 'filter_chain = only_uid:0;exclude_uid:7,8;noop\n' + ''.join('# more padding %04d %s\n' % (i, 'q' * 60) for i in range(70)) + 'output = file:@W@/log\n'
CFG_DROP = '[snoopy]\nmessage_format = ' + FMT + '\nfilter_chain = only_uid:0;only_root;exclude_uid:0;noop\noutput = file:@W@/log\n'


def judge(x, n, k, drop):
    bad = []
    if x.timed_out:
        return ['hang_nothing_runnable_in_the_process_tree' if getattr(x, 'hang', '') == 'hang' else 'timeout']
    if x.rc == 77:
        return ['deadlock']
    if x.rc == 79:
        return ['livelock_horizon']
    if x.rc == 76:
        return ['mutex_reinitialised_while_locked']
    if x.rc == 78:
        return ['HARNESS:replay_divergence']
    if x.san:
        kind = 'data_race' if any('ThreadSanitizer: data race' in s for s in x.san) else 'sanitizer'
        m = re.search(r'SUMMARY: \w+: ([^\n]*)', x.san[0])
        where = ''
        if m:
            where = re.sub(r'/verif/build/[^ ]*?/|/repo/', '', m.group(1))[:90]
        bad.append('%s(%s)' % (kind, where))
    if x.rc != 0 and not bad:
        bad.append('abnormal_exit_%s' % x.rc)
    r = x.result
    if r is None:
        return bad or ['no_result']
    if r['repo_count'] != 0 or not r['repo_first_null'] or not r['repo_last_null']:
        bad.append('registry_not_empty_after_join')
    if r['mutex_trylock'] != 0:
        bad.append('mutex_left_locked')
    if r['rec_calls'] != [k] * n or r['lone_rec_calls'] != 1 or r['bad_ret']:
        bad.append('exec_passthrough')
    if r.get('nonreentrant_libc_calls', 0):
        # localtime(), getpwuid(), strtok(), ... or libc's process-wide utmp reader (setutent/getutline_r/endutent): static storage or a cursor shared by
        # all threads - what one call finds there depends on where the other thread's call is
        bad.append('library_used_libc_state_shared_between_threads(%d calls)' % r['nonreentrant_libc_calls'])
    if r.get('bad_closes', 0):
        bad.append('library_closed_a_descriptor_that_was_not_open(double_close)')
    if r.get('inheritable_at_exec', 0):
        # at the moment of one thread's real exec a descriptor the library opened in ANOTHER thread is open without close-on-exec:
        # the new program would inherit it - the call does not behave as it would alone
        bad.append('library_descriptor_inheritable_at_another_threads_exec')
    if r.get('umask_end', 0o27) != 0o27:
        bad.append('process_umask_changed_to_%o' % r['umask_end'])
    text = x.log
    if text is None and x.stdout:
        text = x.stdout          # output = stdout campaigns
    lines = (text or b'').split(b'\n')
    if lines and lines[-1] == b'':
        lines.pop()
    else:
        if text:
            bad.append('partial_last_record')
    errlog = drop == 'errlog'
    if errlog:
        # every call raises the same errors (its record overflows the limit): the error records of all calls must be there - the same number
        # for each call - next to one (cut) record per call
        nerr = len([l for l in lines if b'Maximum destination string size exceeded' in l])
        lines = [l for l in lines if b'Maximum destination string size exceeded' not in l]
        if nerr == 0 or nerr % (n * k + 1) != 0:
            bad.append('error_records_%d_not_a_multiple_of_%d_calls' % (nerr, n * k + 1))
        drop = False
    exp = {}
    if not drop:
        for t in range(n):
            for j in range(k):
                exp['/t%d/prog%d|cmd arg-t%d-j%d T%dT%dT%d|%d|' % (t, j, t, j, t, t, t, r['ptid'][t])] = 0
    lone = 0
    for l in lines:
        s = l.decode('latin-1')
        if s.startswith('/lone|LONE|'):
            lone += 1
            if not errlog and not re.match(r'^/lone\|LONE\|\d+\|1\|lg\|envvalue\|root(\|[^|]*)?$', s):
                bad.append('lone_call_sees_other_thread_state')
            continue
        hit = [p for p in exp if s.startswith(p)]
        if not hit:
            bad.append('foreign_or_garbled_record')
            continue
        exp[hit[0]] += 1
        rest = s[len(hit[0]):]
        m = re.match(r'^(\d+)\|lg\|envvalue\|root(\|[^|]*)?$', rest)
        if not errlog and (not m or not (1 <= int(m.group(1)) <= n)):
            bad.append('record_tail_wrong')
    if lone != (0 if drop else 1):
        bad.append('lone_record_count_%d' % lone)
    if any(c != 1 for c in exp.values()):
        bad.append('record_count_per_call_not_1')
    return bad


def campaign(ck, v, name, san, fn, cfg, n, k, bound, drop, stats, max_exec=None):
    counter = [0]
    outcomes = stats.setdefault('outcomes', set())

    def runner(prefix):
        counter[0] += 1
        return S.run_one(v['h_thr'], os.path.join(ck.workdir, '%s-%d' % (name, counter[0] % 64)) + '-%d' % (counter[0] // 64 % 4), cfg, n, k, 'calls', prefix, san=san, fn=fn, timeout=120)
    # NB: worker dirs are reused; each run wipes its own dir first.  Use a per-thread dir instead:
    import threading
    tl = threading.local()

    def runner(prefix):
        if not hasattr(tl, 'w'):
            counter[0] += 1
            tl.w = os.path.join(ck.workdir, '%s-w%d' % (name, counter[0]))
        cfgtext, envx = cfg if isinstance(cfg, tuple) else (cfg, None)
        return S.run_one(v['h_thr'], tl.w, cfgtext, n, k, 'calls', prefix, san=san, fn=fn, timeout=120, env_extra=envx)

    def check(x):
        bad = judge(x, n, k, drop)
        order = tuple(l.split(b'|')[0] + b'#' + l.split(b'|')[3] for l in (x.log or x.stdout or b'').split(b'\n') if l.count(b'|') >= 4)
        outcomes.add((name, order))
        if bad:
            if any(b.startswith('HARNESS') for b in bad):
                stats['diverged'] = stats.get('diverged', 0) + 1      # a prefix that no longer replays: not a verdict, counted, run reported as not exhaustive
                ck.capped = True
                return
            ck.violation('C09:%s:%s:n=%d,k=%d' % ('+'.join(sorted(set(bad))), name, n, k),
                         {'campaign': name, 'threads': n, 'calls_each': k, 'schedule_prefix': x.prefix, 'preemption_bound': bound, 'failed': bad, 'sanitizer': x.san[:1], 'log': (x.log or b'').decode('latin-1')[:600],
                          'result': x.result, 'trace_tail': x.trace_tail[-4:], 'replay': 'VS_PREFIX=%s h_thr <ini> <res> %d %d calls' % (','.join(map(str, x.prefix)), n, k)})
    t0 = time.time()
    extra = {}
    if bound == 'hashed':
        nexec, complete, nst, ned = S.explore_hashed(runner, check, deadline=ck.deadline, max_exec=max_exec)
        extra = {'state_hashed': True, 'distinct_states': nst, 'distinct_edges': ned}
        stats['hashed_states'] = stats.get('hashed_states', 0) + nst
    else:
        nexec, complete = S.explore(runner, bound, check, deadline=ck.deadline, max_exec=max_exec)
    stats.setdefault('campaigns', []).append({**extra, 'name': name, 'variant': san, 'function_points': fn, 'threads': n, 'calls_each': k, 'preemption_bound': bound, 'executions': nexec,
                                              'bound_completed': complete, 'wall_s': round(time.time() - t0, 1)})
    if not complete:
        ck.capped = True
    return nexec


def run(ck):
    stats = {}
    total = 0
    va = S.build_thr('c09-sched-asan', san='asan')
    vt = S.build_thr('c09-sched-tsan', san='tsan')
    vf = S.build_thr('c09-schedfn-asan', san='asan', fn=True)
    vio = S.build_thr('c09-schedio-asan', san='asan', io=True)
    # determinism: replay one non-trivial schedule twice and require identical observations
    x0 = S.run_one(va['h_thr'], os.path.join(ck.workdir, 'det0'), CFG_LOG, 2, 1, 'calls', [])
    pre = [p['c'] for p in x0.points[:20]] + [1]
    xa = S.run_one(va['h_thr'], os.path.join(ck.workdir, 'det1'), CFG_LOG, 2, 1, 'calls', pre)
    xb = S.run_one(va['h_thr'], os.path.join(ck.workdir, 'det2'), CFG_LOG, 2, 1, 'calls', pre)
    strip = lambda x: ([(p['t'], p['op'], tuple(p['en']), p['c']) for p in x.points], re.sub(rb'\|\d{6,}\|', b'|T|', x.log or b''))
    if strip(xa) != strip(xb):
        raise RuntimeError('scheduler replay is not deterministic')
    q = ck.tier == 'quick'
    plan = [
        ('asan-2x1', va, 'asan', False, CFG_LOG, 2, 1, 2, False),
        ('asan-2x2', va, 'asan', False, CFG_LOG, 2, 2, 2 if not q else 1, False),
        ('asan-3x1', va, 'asan', False, CFG_LOG, 3, 1, 1, False),
        ('asan-drop-2x1', va, 'asan', False, CFG_DROP, 2, 1, 1, True),
        ('tsan-2x1', vt, 'tsan', False, CFG_LOG, 2, 1, 2, False),
        ('tsan-drop-2x1', vt, 'tsan', False, CFG_DROP, 2, 1, 1, True),
        ('tsan-allds-2x1', vt, 'tsan', False, CFG_ALLDS, 2, 1, 1 if q else 2, False),
        # ... with stdin on a terminal (the terminal-dependent sources - tty, tty_uid, ipaddr: the utmp search - take their full path)
        ('asan-datetime-error-path-2x1', va, 'asan', False, CFG_DTLONG, 2, 1, 1, False),
        ('asan-allds-stdin-tty-2x1', va, 'asan', False, (CFG_ALLDS, {'VS_STDIN_PTY': '1'}), 2, 1, 1, False),
        # state-hashed passes: NO preemption bound; alternatives pruned on (thread positions, mutex model, registry list) - see engine/sched.py
        ('hashed-asan-2x1', va, 'asan', False, CFG_LOG, 2, 1, 'hashed', False),
        ('hashed-tsan-2x1', vt, 'tsan', False, CFG_LOG, 2, 1, 'hashed', False),
        ('hashed-asan-2x2', va, 'asan', False, CFG_LOG, 2, 2, 'hashed', False),
        # write/writev/close issued by snoopy are scheduling points too: two threads' file appends interleaved at system-call granularity (C17 for threads)
        ('io-asan-2x1', vio, 'asan', False, CFG_LOG, 2, 1, 2, False),
        ('io-hashed-asan-2x1', vio, 'asan', False, CFG_LOG, 2, 1, 'hashed', False),
        ('io-stdout-asan-2x1', vio, 'asan', False, CFG_STDOUT, 2, 1, 2, False),
        # socket output whose connect() fails (error path closes the descriptor): descriptor numbers are reused across threads
        ('io-sockabsent-asan-2x1', vio, 'asan', False, CFG_SOCKABSENT, 2, 1, 2, True),
        # caller states: the std stream the records go to has lost its reader (each record is dropped - whatever a call leaves behind must not
        # block the other thread's call); another thread of the program sits in a blocking stdio read and holds that stream's lock
        ('io-stderr-gone-asan-2x1', vio, 'asan', False, (CFG_STDERR, {'VS_STD_GONE': '2'}), 2, 1, 1, True),
        ('io-stdout-gone-asan-2x1', vio, 'asan', False, (CFG_STDOUT, {'VS_STD_GONE': '1'}), 2, 1, 1, True),
        ('io-stdout-stdio-reader-asan-2x1', vio, 'asan', False, (CFG_STDOUT, {'VS_STDIO_READER': '1'}), 2, 1, 1, False),
        ('tsan-errlog-overflow-2x1', vt, 'tsan', False, CFG_ERRLOG, 2, 1, 1, 'errlog'),
        ('io-asan-errlog-overflow-2x1', vio, 'asan', False, CFG_ERRLOG, 2, 1, 1, 'errlog'),
        ('fn-asan-bigfile-2x1', vf, 'asan', True, CFG_BIGFILE, 2, 1, 1, False),
        ('fn-asan-2x1', vf, 'asan', True, CFG_LOG, 2, 1, 1, False),
        ('fn-asan-drop-2x1', vf, 'asan', True, CFG_DROP, 2, 1, 1, True),
    ]
    if not q:
        plan += [
            ('asan-2x1-b3', va, 'asan', False, CFG_LOG, 2, 1, 3, False),
            ('asan-3x1-b2', va, 'asan', False, CFG_LOG, 3, 1, 2, False),
            ('asan-2x3', va, 'asan', False, CFG_LOG, 2, 3, 2, False),
            ('asan-4x1', va, 'asan', False, CFG_LOG, 4, 1, 1, False),
            ('tsan-2x2', vt, 'tsan', False, CFG_LOG, 2, 2, 2, False),
            ('tsan-3x1', vt, 'tsan', False, CFG_LOG, 3, 1, 1, False),
            ('fn-tsan-2x1', S.build_thr('c09-schedfn-tsan', san='tsan', fn=True), 'tsan', True, CFG_LOG, 2, 1, 1, False),
            ('fn-asan-2x1-b2', vf, 'asan', True, CFG_DROP, 2, 1, 2, True),
            ('fn-asan-allds-2x1', vf, 'asan', True, CFG_ALLDS, 2, 1, 1, False),
            ('hashed-asan-3x1', va, 'asan', False, CFG_LOG, 3, 1, 'hashed', False),
            # all interleavings at FUNCTION-ENTRY granularity (state = thread positions counted in function entries + sync points)
            ('fn-hashed-asan-drop-2x1', vf, 'asan', True, CFG_DROP, 2, 1, 'hashed', True),
            ('hashed-tsan-2x2', vt, 'tsan', False, CFG_LOG, 2, 2, 'hashed', False),
            ('hashed-asan-2x3', va, 'asan', False, CFG_LOG, 2, 3, 'hashed', False),
            # the largest campaign last (about 170 000 executions): if the deadline cuts it, everything above has completed
            ('fn-hashed-asan-2x1', vf, 'asan', True, CFG_LOG, 2, 1, 'hashed', False),
        ]
    for p in plan:
        if ck.out_of_time():
            break
        total += campaign(ck, p[1], p[0], *p[2:], stats)
    outs = stats.get('outcomes', set())
    ck.assumptions += ['sequentially consistent interleavings; data-race freedom is checked per schedule by the TSan variant', 'libc internals are not scheduling points (never contended under the serialising scheduler)']
    # ---- one schedule the cooperative scheduler cannot produce (it needs the kernel's partial pipe write): stdout is a nearly full pipe read slowly, both threads'
    # records are longer than PIPE_BUF, both have passed the "is there room" test; the real shared library, preloaded.  Every line the reader gets must be one record.
    from engine import build as _b
    from engine.common import CLEAN_ENV as _CE, VERIF as _V
    so = _b.build_libsnoopy_so('c09-so', san='plain')
    idr = os.path.join(ck.workdir, 'interleave')
    os.makedirs(idr, exist_ok=True)
    rcc = sh(['gcc', '-O0', '-g', '-rdynamic', '-pthread', '-o', os.path.join(idr, 'interleave'), os.path.join(_V, 'native/h_interleave.c')])
    if rcc.returncode:
        raise RuntimeError('h_interleave build failed: ' + rcc.stderr.decode()[:300])
    open(os.path.join(idr, 'snoopy.ini'), 'w').write('[snoopy]\nmessage_format = "%{cmdline}"\ndatasource_message_max_length = 16k\noutput = stdout\n')
    from engine.common import run_fixed_schedule
    iv, rv = run_fixed_schedule([os.path.join(idr, 'interleave')], dict(_CE, LD_PRELOAD=so['so'], VERIF_SNOOPY_INI=os.path.join(idr, 'snoopy.ini')), cwd=idr,
                                setup=tuple(x for x in range(2, 256)) + (-6, -9, -11))
    if iv == 'not_reached':
        ck.capped = True
        ck.assumptions.append('fixed schedule h_interleave could not be arranged on this (busy) machine in 3 attempts: not evaluated in this run')
    if iv == 'violation':
        ck.violation('C09:records_of_two_threads_mixed_on_stdout:nearly_full_pipe:records_longer_than_PIPE_BUF', {'stderr': rv.stderr.decode()[-500:]})
    ck.coverage(states=len(outs) + stats.get('hashed_states', 0), transitions=total, traces_validated_against_impl=total, evaluations=total, distinct_nontrivial=len(outs),
                rule='all schedules within the preemption bound per campaign, one process each; distinct = distinct (campaign, record order with thread counts) observed',
                campaigns=stats.get('campaigns', []), determinism_replays=2, unreproducible_hangs_replayed_ok=len(S.UNREPRODUCIBLE_HANGS), replay_divergences=stats.get('diverged', 0), scheduler_states_in_hashed_passes=stats.get('hashed_states', 0),
                samples=[{'campaign': c['name'], 'executions': c['executions'], 'bound': c['preemption_bound'], 'complete': c['bound_completed']} for c in stats.get('campaigns', [])][:6] or [{'note': 'none'}])
