"""C01 - exec calls pass through unchanged, exactly once, after logging.

Bounded exhaustive enumeration of (entry point x path x argv x envp/environ x configuration x
scripted outcome of the real exec) on the PRODUCTION wrapper object, with a recorder standing in
for libc (found through dlsym(RTLD_NEXT) exactly as libc would be).
"""
import itertools, os
from engine import harness as H
from engine.common import pmap, BUILD

META = {
    'level': 'model_checking',
    'technique': 'bounded exhaustive enumeration of input/config/outcome product on the production wrapper, recorder as real-exec seam',
    'text': 'Every call of the full product (entry x path x argv x envp x configuration x outcome alphabet) is executed on the '
            'real wrapper object; the recorder must be entered exactly once with content-identical vectors, the scripted '
            'return value/errno must come back, and every sink must be identical at recorder entry and after return.',
    'note': 'Alphabet values stand for their classes (one per shortcut in the code); pointers outside the domain (unterminated vectors) excluded. '
            'Trusted: clang ASan/UBSan, dlsym(RTLD_NEXT) resolution order (executable -> librec.so).',
    'design_ref': 'DESIGN.md section 5 C01',
}

PATHS = {
    'empty': H.hx(b''), 'abs': H.hx(b'/bin/true'), 'rel': H.hx(b'x/../y z'),
    'bytes255': H.hx(bytes(range(1, 256))), 'long5000': H.rep('p', 5000),
}
ARGVS = {
    'NULL': None, 'empty': [], 'emptystr': [H.hx(b'')], 'one': [H.hx(b'a')],
    'three8bit': [H.hx(b'a'), H.hx(b'b c'), H.hx(b'\x01\xff')], 'n3000': [(3000, H.hx(b'ab'))],
    'mib': [H.hx(b'x'), H.rep('m', 1 << 20)],
}
ENVPS = {'NULL': None, 'empty': [], 'one': [H.hx(b'A=1')], 'nl': [H.hx(b'A=x\ny'), H.hx(b'NL=l1\nl2'), H.hx(b'NOEQ')], 'n2000': [(2000, H.hx(b'K=v'))]}
ENVIRONS = {'keep': 'env set ' + H.vec([H.hx(b'PATH=/bin'), H.hx(b'LOGNAME=me\nsecond line'), H.hx(b'NL=() {  echo first\n echo second\r\n}'), H.hx(b'SUDO_USER=su\rx')]),
            'null': 'env null', 'big': 'env set ' + H.vec([(500, H.hx(b'V=' + b'y' * 50))])}


def configs(w):
    fmt_all = b'%{filename}|%{cmdline}|%{env_all}|%{uid}|%{tty}|%{cwd}|%{login}|%{env:A}|%{env:NL}|%{env:LOGNAME}|%{username}|%{eusername}|%{group}|%{egroup}|%{tty_username}|%{datetime}|%{hostname}|%{rpname}'
    c = {
        'absent': None,
        'empty': b'',
        'sectiononly': b'[snoopy]\n',
        'devlog': b'[snoopy]\noutput = devlog\n',
        'file': b'[snoopy]\nmessage_format = %s\noutput = file:%s/log\n' % (fmt_all, w.encode()),
        'devnull': b'[snoopy]\noutput = devnull\n',
        'devtty': b'[snoopy]\noutput = devtty\n',
        'socket': b'[snoopy]\noutput = socket:%s/sock\n' % w.encode(),
        'stdout': b'[snoopy]\noutput = stdout\n',
        'stderr': b'[snoopy]\noutput = stderr\n',
        'unknownout': b'[snoopy]\noutput = nosuchoutput:arg\n',
        'dropchain': b'[snoopy]\nfilter_chain = only_uid:12345\noutput = file:%s/log\n' % w.encode(),
        'passchain': b'[snoopy]\nfilter_chain = only_root;exclude_uid:5\noutput = file:%s/log\n' % w.encode(),
        'errlog': b'[snoopy]\nerror_logging = yes\nmessage_format = %%{nosuch} %%{failure}\noutput = file:%s/log\n' % w.encode(),
        'garbage': bytes(range(1, 256)) * 3 + b'\n[snoopy\nmessage_format\n=\n',
        'dupoutput': b'[snoopy]\noutput = file:%s/log\noutput = stdout\noutput = devnull\n  stderr\n' % w.encode(),
        # names that are the empty string in each of the three registries' callers
        'emptytag': b'[snoopy]\nmessage_format = a%%{}b%%{:x}c\noutput = file:%s/log\n' % w.encode(),
        'emptyfilter': b'[snoopy]\nfilter_chain = :x;;noop;:\noutput = file:%s/log\n' % w.encode(),
        'emptyoutput': b'[snoopy]\noutput = :x\n',
        'emptyoutput2': b'[snoopy]\noutput =\n',
        'emptypathtag': b'[snoopy]\noutput = file:%s/lo%%{}g\nsyslog_ident = %%{}\n' % w.encode(),
        'bigmax': b'[snoopy]\ndatasource_message_max_length = 1m\nlog_message_max_length = 1m\nmessage_format = %%{cmdline}|%%{env_all}|%%{cwd}\noutput = file:%s/log\n' % w.encode(),
        'filemissingdir': b'[snoopy]\noutput = file:%s/no/such/dir/log\n' % w.encode(),
    }
    return c


OUTCOMES_SMALL = [(0, 0), (-1, 2), (7, 0), (-1, 13)]


def call_line(fn, path, argv, envp, ret, err):
    return 'call %s %s %s %s %d %d' % (fn, path, H.vec(argv), H.vec(envp) if fn == 'execve' else 'N', ret, err)


def cases_for(tier):
    """Yield (label, prelude, call_line) - the calls of one configuration process."""
    out = []
    full = tier == 'thorough'
    # (1) input shapes x small outcome set
    paths = PATHS if full else {k: PATHS[k] for k in ('empty', 'abs', 'bytes255', 'long5000')}
    outcomes = OUTCOMES_SMALL if full else OUTCOMES_SMALL[:3]
    for (pk, p), (ak, a) in itertools.product(paths.items(), ARGVS.items()):
        for ek, e in ENVPS.items():
            for ret, err in outcomes:
                out.append((('execve', pk, ak, 'envp:' + ek, ret, err), None, call_line('execve', p, a, e, ret, err)))
        for nk, n in ENVIRONS.items():
            for ret, err in outcomes:
                out.append((('execv', pk, ak, 'environ:' + nk, ret, err), n, call_line('execv', p, a, None, ret, err)))
    # (2) every errno for both entries on a plain input
    for fn in ('execve', 'execv'):
        for err in range(1, 134):
            out.append(((fn, 'abs', 'three8bit', 'one', -1, err), ENVIRONS['keep'],
                        call_line(fn, PATHS['abs'], ARGVS['three8bit'], ENVPS['one'], -1, err)))
    return out


# builds without configuration file: format, chain and default output are compiled in (variables of native/seam.c, set per process)
FMT_ALL_CI = b'%{filename}|%{cmdline}|%{env_all}|%{uid}|%{tty}|%{cwd}|%{login}|%{env:A}|%{env:NL}|%{env:LOGNAME}|%{username}|%{eusername}|%{group}|%{egroup}|%{tty_username}|%{datetime}|%{hostname}|%{rpname}'
COMPILED_IN = {
    'compiled_in:devlog': [],
    'compiled_in:file': ['defformat ' + H.hx(FMT_ALL_CI), 'defoutput ' + H.hx(b'file'), 'defoutarg h@W@' + H.hx(b'/log')[1:]],
    'compiled_in:stdout+dropchain': ['defoutput ' + H.hx(b'stdout'), 'defchain ' + H.hx(b'only_uid:12345')],
    'compiled_in:socket+passchain': ['defoutput ' + H.hx(b'socket'), 'defoutarg h@W@' + H.hx(b'/sock')[1:], 'defchain ' + H.hx(b'only_root;exclude_uid:5')],
    'compiled_in:unknown_output': ['defoutput ' + H.hx(b'nosuchoutput'), 'defoutarg ' + H.hx(b'arg')],
    'compiled_in:empty_everything': ['defformat h', 'defoutput h', 'defchain h', 'defident h'],
    'compiled_in:raising_format': ['defformat ' + H.hx(b'%{nosuch}%{failure}%{'), 'defoutput ' + H.hx(b'stderr')],
}

# caller states the wrapper must be transparent in (each is a prelude of harness commands)
STATES = {
    'plain': [],
    'nots': [],        # plain caller state, non-thread-safe build
    'errno34': ['errno 34'],
    'stdin_closed': ['stdin closed'],
    'stdin_pty': ['stdin pty'],
    'umask777_sigterm_blocked': ['umask 777', 'sigmask 15', 'sigmask 13'],
    'daemon_uid': ['setresgid 1 1 1', 'setresuid 1 1 1'],
    'fds_above_1023': ['openfds 1100'],
    'thread_with_256k_stack': ['onthread 256'],     # the exec is made by a thread with a small stack (limits up to 1 MiB are configurable)       # every descriptor the library opens gets a number beyond FD_SETSIZE
}


def run_config(args):
    h, cname, cbytes_fn, cases, idx, root, sname = args
    w = os.path.join(root, 'w%d' % idx)
    if cname.startswith('compiled_in:'):
        lines = ['sinks pipe'] + [c.replace('@W@', H.hx(w.encode())[1:]) for c in COMPILED_IN[cname]] + STATES[sname]
    else:
        cb = cbytes_fn(w)[cname]
        lines = ['sinks pipe', 'cfgnone' if cb is None else 'cfg ' + H.hx(cb)] + STATES[sname]
    cur_env = None
    for label, prelude, cl in cases:
        if prelude and prelude != cur_env:
            lines.append(prelude)
            cur_env = prelude
        lines.append(cl)
    r = H.run_script(h, w, '\n'.join(lines), env_extra={'VERIF_HEXMAX': '0'}, timeout=600)
    return cname, sname, cases, r


SINKS = ('log', 'log2', 'stdout', 'stderr', 'tty', 'sock', 'devlog')


def judge(j):
    """Return list of failed predicates for one call record."""
    bad = []
    if j['rec_calls'] != 1:
        bad.append('rec_calls=%d' % j['rec_calls'])
    if not j['kind_ok']:
        bad.append('wrong_entry_forwarded')
    if not j['path_eq']:
        bad.append('path_changed')
    if not j['argv_eq']:
        bad.append('argv_changed')
    if j['call'] == 'execve' and not j['envp_eq']:
        bad.append('envp_changed')
    if j['call'] == 'execv' and not (j['environ_eq'] and j['environ_same_ptr']):
        bad.append('environ_changed')
    if not j['caller_unchanged']:
        bad.append('caller_buffers_changed')
    if j.get('nonreentrant_libc_calls', 0):
        # getpwuid / ttyname / strtok / localtime ...: their static storage is the caller's too (it may be about to exec with strings from it)
        bad.append('library_used_libc_function_with_static_state_shared_with_the_caller')
    if j['ret'] != j['want_ret']:
        bad.append('ret')
    if j['errno'] != j['want_errno']:
        bad.append('errno')
    if 'at_entry' in j and j.get('after') is not None:
        for s in SINKS:
            if j['at_entry'][s]['fnv'] != j['after'][s]['fnv'] or j['at_entry'][s]['len'] != j['after'][s]['len']:
                bad.append('emitted_after_exec:' + s)
    return bad


def run(ck):
    v = H.build_exec_harness('c01-ts-asan')
    cases = cases_for(ck.tier)
    cfgnames = list(configs('/x').keys())
    # plain caller state: the full product; every other caller state: the full product in thorough, the shape product with
    # one outcome in quick
    reduced = [c for c in cases if (c[0][4], c[0][5]) == (-1, 2) and c[0][1] in ('abs', 'bytes255')]
    jobs = []
    for sname in [x for x in STATES if x != 'nots']:
        cs = cases if (sname == 'plain' or ck.tier == 'thorough') else reduced
        for c in cfgnames:
            # (bigmax: records of up to 1 MiB each - always the reduced product, the sinks are re-read at every call)
            jobs.append((v['h_exec'], c, configs, reduced if c == 'bigmax' else cs, len(jobs), ck.workdir, sname))
    # the non-thread-safe build (--disable-thread-safety): every configuration, shape product with one outcome (thorough: full product)
    vn = H.build_exec_harness('c01-nots-asan', ts=False)
    for c in cfgnames:
        jobs.append((vn['h_exec'], c, configs, cases if (ck.tier == 'thorough' and c != 'bigmax') else reduced, len(jobs), ck.workdir, 'nots'))
    vci = H.build_exec_harness('c01ci-ts-asan', compiled_in=True)
    for cn in COMPILED_IN:
        jobs.append((vci['h_exec'], cn, configs, cases if ck.tier == 'thorough' else reduced, len(jobs), ck.workdir, 'plain'))
    results = pmap(run_config, jobs)
    evals = 0
    outcomes_seen = set()
    logged_calls = 0
    samples = []
    for cname0, sname, cases, r in results:
        cname = cname0 if sname == 'plain' else cname0 + '@' + sname
        if not r['done'] or r['san'] or r['signal'] or r['timed_out']:
            n_ok = len([l for l in r['lines'] if 'call' in l])
            lab = cases[n_ok][0] if n_ok < len(cases) else None
            ck.violation('C01:abort:cfg=%s:case=%s' % (cname, lab),
                         {'config': cname, 'case': lab, 'rc': r['rc'], 'signal': r['signal'], 'timed_out': r['timed_out'],
                          'sanitizer': r['san'][:1], 'stderr': r['stderr'][-800:], 'replay': 'bin/verif check C01'})
        calls = [l for l in r['lines'] if 'call' in l]
        for (label, _, cl), j in zip(cases, calls):
            evals += 1
            bad = judge(j)
            grew = any(j['after'][s]['len'] != j['before'][s]['len'] for s in SINKS) if j.get('after') else False
            logged_calls += grew
            outcomes_seen.add((cname, label[0], j['ret'], j['errno'], grew))
            if bad:
                ck.violation('C01:%s:cfg=%s:%s' % ('+'.join(bad), cname, '/'.join(map(str, label))),
                             {'config': cname, 'case': label, 'script_line': cl[:400], 'failed': bad, 'record': {k: j[k] for k in j if k not in ('before', 'at_entry', 'after')}})
            if len(samples) < 4 and evals % 997 == 1:
                samples.append({'config': cname, 'case': label, 'rec_calls': j['rec_calls'], 'ret': j['ret'], 'errno': j['errno'], 'logged': grew})
    ck.assumptions += ['recorder linked after the executable stands for libc (same dlsym(RTLD_NEXT) lookup)',
                       'alphabet values represent their classes; unterminated vectors / invalid pointers outside the domain']
    ck.coverage(states=len(outcomes_seen), transitions=evals, traces_validated_against_impl=evals, evaluations=evals,
              distinct_nontrivial=len(outcomes_seen),
              rule='full product of entry x path x argv x envp/environ x outcome per configuration, plus every errno 1..133, in the plain caller state; '
                   'the same (thorough) or the shape product with one outcome (quick) in every other caller state; '
                   'distinct = distinct (config, entry, ret, errno, logged?) observations',
              calls_that_logged=logged_calls, configurations=len(cfgnames), caller_states=list(STATES), processes=len(jobs),
              samples=samples or [{'note': 'no sample'}])
