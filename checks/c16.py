"""C16 - the wrapper leaves no residue in the calling process.

(1) per configuration/exec/process-state letter: full process-state digest (descriptor table with
    targets, environment, cwd, umask, signal mask and dispositions, every writable library symbol,
    live heap) before the call, at recorder entry, and after return; then 200 repetitions with the
    per-call heap balance and the digest compared at the end - in a heap-tracking build and under ASan;
(2) history search: all ordered pairs of letters (state set closes at one state);
(3) fault enumeration (ptrace): every single injected I/O failure on rich configurations; the harness
    itself compares descriptor table and heap balance around the faulted call and around a clean call after it.
"""
import os, re, json, errno as E
from engine import harness as H, hist, sysx as X
from engine.common import pmap
from checks import c03

META = {
    'level': 'model_checking',
    'technique': 'explicit-state check of the full process-state digest around every call of a letter alphabet (repeat x200, ordered pairs), plus exhaustive single-fault injection (ptrace) with residue self-check',
    'text': 'For every letter (each output, one format per data source incl. absent/present cgroup selectors, each filter with and without arguments, valid/invalid/duplicated options, exec shapes, '
            'process states with handlers/masks/umask/extra descriptors) the digest of the process (fds+targets, environ, cwd, umask, sigmask, 64 dispositions, all writable library symbols, live heap) must be '
            'identical before the call, at the moment the real exec is invoked, and after it returned; 200 repetitions must balance the heap on every call; all ordered pairs are run; '
            'and every single I/O fault on the rich configurations must leave descriptor table and heap balanced after the faulted call and after a clean call following it.'
            " Caller states (preludes): signal handlers/masks/pending signals, ids without entries, descriptors above 1023, session leader without controlling terminal, open database walks, stdio in use, non-blocking std streams; the digest includes F_GETFL per descriptor, pending signals, stdio state and unflushed bytes, and a counter of non-reentrant libc calls (incl. libc's utmp reader).",
    'note': 'Heap accounting interposes malloc/calloc/realloc/free for the whole process (plain build); libc-internal caches settle in warm-up calls. The emitted record is the only allowed effect.',
}

DS = ['cgroup:name=systemd', 'cgroup:0', 'cgroup:99', 'cgroup:nosuchctl', 'cgroup:', 'cmdline', 'cwd', 'datetime', 'datetime:%Y', 'domain', 'egid', 'egroup', 'env:A', 'env:NOPE', 'env_all', 'euid', 'eusername', 'filename', 'gid', 'group',
      'hostname', 'ipaddr', 'login', 'pid', 'ppid', 'rpname', 'sid', 'snoopy_configure_command', 'snoopy_literal:x', 'snoopy_threads', 'snoopy_version', 'systemd_unit_name', 'tid', 'tid_kernel', 'timestamp',
      'timestamp_ms', 'timestamp_us', 'tty', 'tty_uid', 'tty_username', 'uid', 'username', 'failure', 'noop', 'nosuch']
FILTERS = ['exclude_spawns_of:zz', 'exclude_spawns_of:', 'exclude_spawns_of', 'exclude_spawns_of:python3', 'exclude_uid:5', 'exclude_uid:', 'exclude_uid:0', 'only_root', 'only_tty', 'only_uid:0', 'only_uid:', 'only_uid:9', 'noop', 'nosuch:x', ';;', 'only_uid:0;exclude_uid:1;noop']


def letters():
    L = {}
    call = 'call execve %s %s %s -1 2' % (H.hx(b'/bin/p'), H.vec([H.hx(b'p'), H.hx(b'a b')]), H.vec([H.hx(b'A=1')]))
    call_null = 'call execv %s N N -1 2' % H.hx(b'/bin/q')
    call_long = 'call execve %s %s [] 0 0' % (H.hx(b'/' + b'p' * 3000), H.vec([(500, H.hx(b'argument'))]))

    def add(name, cfg, c=call):
        L[name] = ['cfgnone' if cfg is None else ('cfgdir' if cfg == 'DIR' else 'cfg ' + H.hx(cfg)), c]
    for o, a in (('file', 'file:log'), ('filetpl', 'file:log-%{username}'), ('filebad', 'file:/no/such/dir/x'), ('fileempty', 'file:'), ('devnull', 'devnull'), ('devtty', 'devtty'), ('socket', 'socket:sock'),
                 ('socketabsent', 'socket:nosock'), ('devlog', 'devlog'), ('stdout', 'stdout'), ('stderr', 'stderr'), ('noop', 'noop'), ('unknown', 'nosuch:arg')):
        add('out:' + o, ('[snoopy]\noutput = %s\n' % a).encode())
    for d in DS:
        add('ds:' + d, ('[snoopy]\nmessage_format = %%{%s}\noutput = file:log\n' % d).encode())
    for f in FILTERS:
        add('flt:' + f, ('[snoopy]\nfilter_chain = %s\noutput = file:log\n' % f).encode())
    opts = {'errlog': b'error_logging = yes\nmessage_format = %{nosuch}%{failure}\nlog_message_max_length = 255\n', 'ident': b'syslog_ident = %{username}-%{nosuch}\n', 'fac': b'syslog_facility = LOCAL1\nsyslog_level = DEBUG\n',
            'inv': b'syslog_facility = zz\nsyslog_level = q\noutput = \ndatasource_message_max_length = 0\nerror_logging = ?\n', 'dup': b'message_format = a\nmessage_format = b\noutput = file:log\noutput = stdout\noutput = socket:sock\nfilter_chain = noop\nfilter_chain = only_root\nsyslog_ident = a\nsyslog_ident = b\n',
            'cont': b'message_format = a\n  b\n  c\n', 'limits': b'datasource_message_max_length = 1m\nlog_message_max_length = 1m\n', 'overflow': b'log_message_max_length = 255\nmessage_format = ' + b'L' * 300 + b'%{cmdline}\nerror_logging = yes\n'}
    for k, val in opts.items():
        add('opt:' + k, b'[snoopy]\n' + val)
    # literal segments around the data-source limit (message format) and around the fixed ident limit, in front of a tag
    for d in (-1, 0, 1, 2):
        add('lit:ds255%+d' % d, b'[snoopy]\ndatasource_message_max_length = 255\nmessage_format = ' + b'L' * (255 + d) + b'%{uid}\noutput = file:log\n')
        add('lit:ds700%+d' % d, b'[snoopy]\ndatasource_message_max_length = 700\nmessage_format = ' + b'L' * (700 + d) + b'%{uid}tail\noutput = file:log\n')
        add('lit:ident256%+d' % d, b'[snoopy]\nsyslog_ident = ' + b'I' * (256 + d) + b'%{uid}\noutput = devlog\n')
        add('lit:path%+d' % d, b'[snoopy]\noutput = file:' + b'./' * ((4096 + d - 3) // 2) + b'x' * ((4096 + d - 3) % 2) + b'log%{uid}\n')
    # the log path is a terminal (not the caller's): used below with a caller that is a session leader without a controlling terminal
    add('out:file_is_a_foreign_tty', b'[snoopy]\noutput = file:%{env:PTSPATH}\n')
    add('cfg:absent', None)
    add('cfg:dir', 'DIR')
    add('cfg:garbage', bytes(range(1, 256)))
    add('exec:null', b'[snoopy]\noutput = file:log\n', call_null)
    add('exec:long', b'[snoopy]\nmessage_format = %{cmdline}|%{filename}|%{env_all}\noutput = file:log\n', call_long)
    return L


PRELUDES = {'plain': [], 'sigstate': ['sighandler 10', 'sighandler 13', 'sighandler 17'] + ['sigmask %d' % n for n in (1, 2, 3, 10, 12, 13, 14, 15, 17, 20, 21, 22)] + ['umask 027', 'openfd 0', 'openfd 1'],
            'sigstate2': ['sighandler 1', 'sighandler 2', 'sighandler 14', 'sighandler 15', 'sigmask 13', 'umask 077'],
            # identities without passwd / group entries, real != effective, stdin on a pty: the lookup-miss paths of the identity data sources
            'ids_unknown': ['stdin pty', 'setresgid 54321 54321 54321', 'setresuid 54321 54321 54321'],
            'ids_mixed': ['stdin pty', 'setresgid 1 54321 0', 'setresuid 1 54321 0'],
            'fds_above_1023': ['openfds 1100'],
            'session_leader_without_ctty': ['dropctty', 'ptyslave ' + H.hx(b'PTSPATH')],
            # the caller is walking the user / group databases itself (getpwent, getgrent): descriptors and positions are its own
            'callers_database_walks_open': ['pwwalk'],
            # /etc/hosts lists a fully qualified name of this host (the "found" path of the domain data source)
            'hosts_with_fqdn': ['bindover ' + H.hx(b'127.0.0.1 localhost\n10.1.2.3 ' + os.uname().nodename.encode() + b'.corp.example.org ' + os.uname().nodename.encode() + b'\n') + ' ' + H.hx(b'/etc/hosts')],
            # the caller has blocked SIGPIPE / SIGXFSZ / SIGTTOU / SIGUSR1 and one instance of each is PENDING: it must still be pending, and
            # undelivered, afterwards (the digest holds the pending set; a delivery would kill the process)
            'blocked_signals_pending': ['sigmask 13', 'sigmask 25', 'sigmask 22', 'sigmask 10', 'raise 13', 'raise 25', 'raise 22', 'raise 10'],
            # the caller keeps its stdout and stderr in non-blocking mode (event-driven programs do): the digest holds F_GETFL of every descriptor
            'std_streams_non_blocking': ['nonblock 1', 'nonblock 2'],
            # the caller's stdout holds text it has not flushed yet (fully buffered), its stderr is wide-oriented
            'callers_stdio_in_use': ['stdiopending 1'],
            # environment values with line feeds / carriage returns in the variables the data sources read
            'env_with_line_feeds': ['setenv %s %s' % (H.hx(b'LOGNAME'), H.hx(b'alice\nroot')), 'setenv %s %s' % (H.hx(b'SUDO_USER'), H.hx(b'bob\r\nx')), 'setenv %s %s' % (H.hx(b'A'), H.hx(b'l1\nl2'))]}


def digest_eq(a, b):
    """compare two digest dicts ignoring the tag"""
    ka = {k: v for k, v in a.items() if k != 'digest'}
    kb = {k: v for k, v in b.items() if k != 'digest'}
    if ka == kb:
        return None
    diff = {}
    for k in ka:
        if k == 'syms':
            for s in ka['syms']:
                if ka['syms'][s] != kb['syms'].get(s):
                    diff['sym:' + s] = 'changed'
        elif ka[k] != kb.get(k):
            diff[k] = (str(ka[k])[:120], str(kb.get(k))[:120])
    return diff


def run_letter(args):
    h, symfile, w, prelude, name, lines, reps, heap = args
    script = ['syms ' + symfile, 'sinks pipe'] + prelude + ['lean 1', 'digest pre']
    script += lines + lines            # two warm-up rounds
    script += ['wantdigest 1', 'digest before'] + lines + ['digest after', 'wantdigest 0', 'noentry']
    for _ in range(reps):
        script += [lines[-1]]
    script += ['digest end']
    r = H.run_script(h, w, '\n'.join(script), env_extra={'VERIF_HEXMAX': '0'}, timeout=300, noaslr=True)
    return name, r


def run(ck):
    L = letters()
    evals = 0
    outcomes = set()
    samples = []
    reps = 200 if ck.tier == 'thorough' else 60
    for vname, san, heap in (('heap', 'plain', True), ('asan', 'asan', False)):
        v = H.build_exec_harness('c16-ts-' + vname, san=san, heaptrack=heap)
        symfile = os.path.join(v['dir'], 'syms.txt')
        H.write_syms(v, v['h_exec'], symfile)
        jobs = []
        for pn, pl in PRELUDES.items():
            for name, lines in L.items():
                if pn == 'hosts_with_fqdn':
                    if not name.startswith(('ds:domain', 'ds:hostname', 'out:file')):
                        continue
                elif pn == 'callers_database_walks_open':
                    if not name.startswith(('ds:', 'flt:')):
                        continue
                elif pn == 'session_leader_without_ctty':
                    if not name.startswith(('out:file_is_a_foreign_tty', 'out:devtty', 'ds:tty', 'out:file')):
                        continue
                elif pn == 'env_with_line_feeds':
                    if not name.startswith(('ds:login', 'ds:env', 'ds:username', 'exec:')):
                        continue
                elif pn.startswith('ids_'):
                    if not name.startswith(('ds:', 'flt:', 'out:file', 'out:devlog')):
                        continue
                elif pn != 'plain' and not name.startswith(('out:', 'opt:errlog', 'opt:overflow', 'ds:tty', 'ds:cwd', 'ds:login', 'ds:datetime', 'flt:exclude_spawns_of:zz')):
                    continue
                jobs.append((v['h_exec'], symfile, os.path.join(ck.workdir, '%s-%s-%d' % (vname, pn, len(jobs))), pl, '%s|%s' % (pn, name), lines, reps, heap))
        for name, r in pmap(run_letter, jobs):
            tag = '%s:%s' % (vname, name)
            ds = {l['digest']: l for l in r['lines'] if 'digest' in l and 's' not in l}
            calls = [l for l in r['lines'] if 'call' in l]
            if not r['done'] or r['san']:
                ck.violation('C16:abort:%s' % tag, {'letter': name, 'build': vname, 'rc': r['rc'], 'sanitizer': r['san'][:1], 'stderr': r['stderr'][-400:]})
                continue
            evals += len(calls)
            main = calls[2]
            bad = []
            for a, b, what in ((ds['before'], main.get('digest_at_entry'), 'at_exec_entry'), (ds['before'], ds['after'], 'after_return'), (ds['before'], ds['end'], 'after_%d_repetitions' % reps)):
                if b is None:
                    bad.append(('missing_digest_' + what, None))
                    continue
                d = digest_eq(a, b)
                if d:
                    bad.append((what, d))
            # process attributes must survive even the very FIRST call (library statics and heap may legitimately settle there)
            if 'pre' in ds:
                d = digest_eq({k: v for k, v in ds['pre'].items() if k in ('fds', 'env', 'cwd', 'umask', 'sigmask', 'sigpending', 'sigact', 'misc', 'stdio', 'stdio_pending')}, {k: v for k, v in ds['end'].items() if k in ('fds', 'env', 'cwd', 'umask', 'sigmask', 'sigpending', 'sigact', 'misc', 'stdio', 'stdio_pending')})
                if d:
                    bad.append(('process_attributes_changed_since_before_first_call', d))
            if heap:
                if main.get('heap_delta_live_at_entry', 0) != 0:
                    bad.append(('heap_live_at_exec_entry', main.get('heap_delta_live_at_entry')))
                grow = [c['heap_delta_live'] for c in calls[2:] if c.get('heap_delta_live', 0) != 0]
                if grow:
                    bad.append(('heap_retained_per_call', grow[:5]))
            outcomes.add((vname, name, tuple(x[0] for x in bad), main['logdelta']['len'] > 0))
            if bad:
                kinds = sorted(set((k + '(' + ','.join(sorted(d)) + ')') if isinstance(d, dict) else k for k, d in bad))
                ck.violation('C16:%s:%s' % (';'.join(kinds)[:150], tag), {'letter': name, 'build': vname, 'residue': [(k, d) for k, d in bad], 'script_tail': L[name.split('|', 1)[1]]})
            if len(samples) < 4 and evals % 37 == 5:
                samples.append({'letter': name, 'build': vname, 'residue': [x[0] for x in bad] or 'none'})
        # (2) ordered pairs: digest after [a, b] must equal the warm state
        if heap:
            names = [n for n in L if n.startswith(('out:', 'opt:', 'cfg:', 'flt:exclude_spawns_of:zz', 'ds:cgroup:99', 'ds:env_all', 'exec:'))] if ck.tier == 'quick' else list(L)
            ex = hist.Explorer(v['h_exec'], symfile, os.path.join(ck.workdir, 'pairs'), ['sinks pipe', 'lean 1', 'errno -1'], {n: L[n] for n in names}, warmup=['cfg ' + H.hx(('[snoopy]\nmessage_format = %s\nsyslog_ident = %%{username}\noutput = file:log\n' % c03.ALL_DS).encode()), 'call execve h2f77 [h77] [] -1 2', 'cfg ' + H.hx(b'[snoopy]\noutput = stdout\n'), 'call execve h2f77 [h77] [] -1 2', 'cfg ' + H.hx(b'[snoopy]\noutput = stderr\n'), 'call execve h2f77 [h77] [] -1 2', 'cfg ' + H.hx(b'[snoopy]\noutput = devtty\n'), 'call execve h2f77 [h77] [] -1 2'])   # warm-up touches every data source: libc caches (NSS, tz, locale) settle here
            pairs = [(a, b) for a in names for b in names]
            if ck.tier == 'quick':
                pairs = [(a, b) for a, b in pairs if a.startswith(('out:', 'opt:')) ]
            for pr, r in zip(pairs, pmap(lambda p: ex.run_history(list(p)), pairs)):
                evals += 2
                if not r['ok'] or r['steps'][-1][1] is None:
                    ck.violation('C16:abort:pair=%s>%s' % pr, {'pair': pr, 'rc': r['raw']['rc'], 'stderr': r['raw']['stderr'][-300:]})
                    continue
                for (call, dg), nm in zip(r['steps'], pr):
                    if call is not None and call.get('heap_delta_live', 0) != 0:
                        ck.violation('C16:heap_retained_per_call:pair=%s>%s:at=%s' % (pr[0], pr[1], nm), {'pair': pr, 'blocks': call['heap_delta_live']})
                if r['steps'][-1][1] != r['start']:
                    d = hist.diff(r['start'], r['steps'][-1][1])
                    d = {k: val for k, val in d.items() if k not in ('heap_live', 'heap_bytes')} or d
                    if set(d) - {'heap_live', 'heap_bytes'}:
                        ck.violation('C16:state_after_pair_differs(%s):pair=%s>%s' % (','.join(sorted(d)), pr[0], pr[1]), {'pair': pr, 'difference': d})
                outcomes.add(('pair', pr, r['steps'][-1][1] == r['start']))
    # (3) single faults with residue self-check
    evals += fault_phase(ck, outcomes)
    ck.assumptions += ['heap accounting is process-wide (libc included); two warm-up rounds precede every measurement', 'faults: single deviations at the system-call boundary; allocation failure outside the domain']
    ck.coverage(states=len(outcomes), transitions=evals, traces_validated_against_impl=evals, evaluations=evals, distinct_nontrivial=len(outcomes),
                rule='per letter: digest before = at exec entry = after = after N repetitions, heap balance per call; ordered pairs; single faults with fd/heap self-check; distinct = (build, letter, residue kinds, logged?)',
                letters=len(L), repetitions=reps, samples=samples or [{'note': 'none'}])


def fault_phase(ck, outcomes):
    sx = X.build_sysx()
    v = X.build_h_one('c16-ts-plainheap', san='plain', heaptrack=True)
    cfgs = {'file/allds': c03.configs('quick')['file/allds'], 'devlog/allds+ident': c03.configs('quick')['devlog/allds+ident'], 'file/chain': c03.configs('quick')['file/chain'],
            'socket/default': c03.configs('quick')['socket/default'], 'stdout/default': c03.configs('quick')['stdout/default'], 'devtty/default': c03.configs('quick')['devtty/default']}
    n = 0
    counter = [0]

    def one(cfgtext, opts):
        counter[0] += 1
        w = os.path.join(ck.workdir, 'f%d' % counter[0])
        env = c03.Env(w)
        try:
            ini = os.path.join(w, 'snoopy.ini')
            open(ini, 'w').write(cfgtext.replace('@W@', w))
            res = os.path.join(w, 'res.json')
            rep = X.run(sx, w, [v['h_one'], ini, res, '0', '3', os.path.join(w, 'devlog')], opts=list(opts) + ['--skipalloc', '--calltimeout', '3000', '--totaltimeout', '8000'], timeout=40)
            try:
                rep['result'] = json.load(open(res))
            except Exception:
                rep['result'] = None
            return rep
        finally:
            env.close()
    names = list(cfgs)
    traces = pmap(lambda k: one(cfgs[k], []), names)
    jobs = []
    for k, t in zip(names, traces):
        n += 1
        r = t.get('result')
        if not r or r['heap_delta'][1] != 0 or r['heap_delta'][2] != 0 or any(r['fd_table_changed']):
            ck.violation('C16:residue_without_fault:cfg=%s' % k, {'config': cfgs[k], 'result': r})
            continue
        for c in t['calls']:
            if c.get('w') != 2 or c['name'] in c03.SKIP:
                continue
            for dev in c03.menu(c['name'], 'quick'):
                if dev[0] == 'short' and c['name'] not in ('read', 'write', 'sendto'):
                    continue
                jobs.append((k, c, dev))
    res = pmap(lambda j: one(cfgs[j[0]], c03.opts_for(j[2], j[1])), jobs)
    for (k, c, dev), rep in zip(jobs, res):
        n += 1
        r = rep.get('result')
        if not r or rep.get('diverged'):
            continue      # crashes/hangs under faults are C03's business; a diverged replay is not a verdict
        bad = []
        if r['fd_table_changed'][1]:
            bad.append('descriptor_table_changed_by_faulted_call')
        if r['fd_table_changed'][2]:
            bad.append('descriptor_table_changed_by_clean_call_after_fault')
        if r['heap_delta'][1] != 0:
            bad.append('heap_retained_by_faulted_call(%d)' % r['heap_delta'][1])
        if r['heap_delta'][2] != 0:
            bad.append('heap_retained_by_clean_call_after_fault(%d)' % r['heap_delta'][2])
        outcomes.add(('fault', k, c['name'], dev, tuple(bad)))
        if bad:
            ck.violation('C16:%s:cfg=%s:call=%s(%s):answer=%s:%s' % ('+'.join(re.sub(r'\(.*\)', '', b) for b in bad), k, c['name'], c.get('path', '')[-30:], dev[0], dev[1]),
                         {'config': cfgs[k], 'faulted_call': c, 'deviation': dev, 'result': r})
    return n
