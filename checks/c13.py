"""C13 - registered names bind to their own implementation in every build.

(1) Guard-structure model, exhaustive: the two parallel arrays (names, function pointers) of each of the three
    registries are extracted from the source with their #if/#ifdef nesting; position by position the guard sets must be
    equal, the lists equally long, and function == prefix + name (+suffix); that implies alignment for ALL 2^N
    configurations of the model.
(2) Implementation, enumerated configurations: the REAL registry source + genericregistry.c are compiled against stub
    implementations (stub X records "X") under generated config.h files: all 2^5 filter sets, all 2^7 output sets (+syslog),
    and for the 36 data-source switches + thread safety: all-on, all-off, every single-off/-on, every pair-off/-on (thorough).
    Every name of the universe is looked up in every configuration: it must exist iff enabled and call its own stub.
    The model's predicted table is compared with the compiled one for each configuration (trace binding).
"""
import os, re, itertools, shutil
from engine import build
from engine.common import CLEAN_ENV, pmap, sh, VERIF, REPO, BUILD

META = {
    'level': 'model_checking',
    'technique': 'exhaustive guard-structure model of the registry tables (all 2^N configurations at once) bound to the code by compiling and introspecting enumerated configurations',
    'text': 'Model: position-wise guard equivalence of the name and pointer tables of the data source, filter and output registries (=> aligned in every configuration). '
            'Implementation: every name of the universe is resolved in every enumerated configuration of the real registry code (all filter and output subsets exhaustively; data sources: all/none/each single/each pair, '
            'thread safety on and off) against recording stubs: exists iff enabled, and runs its own implementation; unknown and disabled names are unknown, including proper prefixes of enabled names.'
            ' Look-up histories: every sequence of (registry, name) look-ups of depth 2 over all names of the three registries (depth 3 over the names shared between registries plus first/middle/last/unknown of each; thorough) in one process - what a name runs must not depend on earlier look-ups in this or another registry.'
            " Also: the real shared library preloaded behind a decoy library that defines the registries' table symbols with rotated contents (a table the library exported would be interposed).",
    'note': 'If the extractor meets a preprocessor construct it does not know, the model verdict is withheld (exhaustive:false) and only the compiled configurations decide. Trusted: gcc preprocessor.',
}

REG = {
    'datasource': ('src/datasourceregistry.c', 'snoopy_datasourceregistry', 'snoopy_datasource_', '', 'SNOOPY_CONF_DATASOURCE_ENABLED_'),
    'filter': ('src/filterregistry.c', 'snoopy_filterregistry', 'snoopy_filter_', '', 'SNOOPY_CONF_FILTER_ENABLED_'),
    'output': ('src/outputregistry.c', 'snoopy_outputregistry', 'snoopy_output_', 'output', 'SNOOPY_CONF_OUTPUT_ENABLED_'),
}


def extract(src, arrname):
    """[(frozenset(guards), token)] for the initializer of `arrname`; None on an unknown directive form"""
    m = re.search(re.escape(arrname) + r'\s*\[\s*\]\s*\)?\s*(?:\([^)]*\))?\s*=\s*\{(.*?)\n\};', src, re.S)
    if not m:
        return None
    stack, out = [], []
    for raw in m.group(1).split('\n'):
        l = raw.strip()
        if not l or l.startswith('//') or l.startswith('/*') or l.startswith('*'):
            continue
        if l.startswith('#'):
            d = re.match(r'#\s*ifdef\s+(\w+)\s*$', l)
            d2 = re.match(r'#\s*if\s+defined\s*\(?\s*(\w+)\s*\)?\s*$', l)
            if d or d2:
                stack.append((d or d2).group(1))
            elif re.match(r'#\s*endif', l):
                if not stack:
                    return None
                stack.pop()
            else:
                return None          # #else / #elif / #ifndef / expressions: not understood -> refuse
            continue
        t = re.match(r'^"([^"]*)"\s*,?$', l) or re.match(r'^&?\s*(\w+)\s*,?$', l)
        if not t:
            return None
        out.append((frozenset(stack), t.group(1)))
    return out if not stack else None


def model_check(ck, repo):
    ok_all = True
    n_pos = 0
    tables = {}
    for kind, (path, pre, fpre, fsuf, sw) in REG.items():
        src = open(os.path.join(repo, path)).read()
        names = extract(src, pre + '_names')
        ptrs = extract(src, pre + '_ptrs')
        if names is None or ptrs is None:
            ck.capped = True
            ck.assumptions.append('guard extractor refused %s: model verdict withheld for this registry' % path)
            ok_all = False
            continue
        body = [n for n in names if n[1] != '']          # the terminating "" has no pointer
        tables[kind] = (body, ptrs)
        if len(body) != len(ptrs):
            ck.violation('C13:model:%s:table_lengths_differ:names=%d:ptrs=%d' % (kind, len(body), len(ptrs)), {'registry': path, 'names': [n[1] for n in body], 'ptrs': [p[1] for p in ptrs]})
        for i, ((gn, n), (gp, p)) in enumerate(zip(body, ptrs)):
            n_pos += 1
            if gn != gp:
                ck.violation('C13:model:%s:guards_differ_at_%d:%s' % (kind, i, n), {'registry': path, 'position': i, 'name': n, 'name_guards': sorted(gn), 'pointer': p, 'pointer_guards': sorted(gp)})
            if p != fpre + n + fsuf:
                ck.violation('C13:model:%s:name_bound_to_other_function_at_%d:%s->%s' % (kind, i, n, p), {'registry': path, 'position': i, 'name': n, 'pointer': p})
            own = sw + n
            if gn and own not in gn and n not in ('noop', 'failure'):
                ck.violation('C13:model:%s:entry_guarded_by_foreign_switch:%s' % (kind, n), {'registry': path, 'name': n, 'guards': sorted(gn)})
    return tables, n_pos, ok_all


STUB_MAIN = r'''
#include <stdio.h>
#include <string.h>
#include <stddef.h>
#include "%(hdr)s"
const char *last_called = "";
int main(int argc, char **argv) {
    for (int i = 1; i < argc; i++) {
        last_called = "-";
        if (!%(pre)s_doesNameExist(argv[i])) { printf("%%s=UNKNOWN\n", argv[i]); continue; }
        %(call)s
        printf("%%s=%%s\n", argv[i], last_called);
    }
    /* the same names through the production caller of this registry (filter chain walker / configured-output dispatch) */
    for (int i = 1; i < argc; i++) {
        last_called = "-";
        %(route)s
        printf("ROUTE:%%s=%%s\n", argv[i], last_called);
    }
    printf("COUNT=%%d\n", %(pre)s_getCount());
    return 0;
}
'''


SEQ_MAIN = r"""
#include <stdio.h>
#include <string.h>
#include <stddef.h>
#include "datasourceregistry.h"
#include "filterregistry.h"
#include "outputregistry.h"
#include "configuration.h"
const char *last_called = "";
snoopy_configuration_t verif_cfg;
snoopy_configuration_t *snoopy_configuration_get(void) { return &verif_cfg; }
/* argv: tokens "d:name" / "f:name" / "o:name", looked up one after the other in ONE process and thread */
int main(int argc, char **argv) {
    for (int i = 1; i < argc; i++) {
        const char *n = argv[i] + 2; char b[8]; int ex = 0;
        last_called = "-";
        switch (argv[i][0]) {
        case 'd': ex = snoopy_datasourceregistry_doesNameExist(n); if (ex) snoopy_datasourceregistry_callByName(n, b, sizeof b, ""); break;
        case 'f': ex = snoopy_filterregistry_doesNameExist(n);     if (ex) snoopy_filterregistry_callByName(n, "");               break;
        case 'o': ex = snoopy_outputregistry_doesNameExist(n);     if (ex) snoopy_outputregistry_callByName(n, "m", "");          break;
        }
        printf("%d=%s\n", i, ex ? last_called : "UNKNOWN");
        fflush(stdout);
    }
    return 0;
}
"""


def lookup_histories(ck, repo, U, extra, root, base_lines, quick):
    """Every sequence of look-ups (registry, name) up to the depth, in one process: what a name resolves to must not depend on what was
    looked up before, in this or in another registry (the three registries share genericregistry.c).  Depth 2 over the whole universe of
    names of the three registries (+ an unknown name each); depth 3 over a reduced alphabet: every name that exists in more than one
    registry, plus first / middle / last table entry and the unknown name of each registry."""
    d = os.path.join(root, 'seq')
    os.makedirs(d, exist_ok=True)
    with open(os.path.join(d, 'config.h'), 'w') as f:
        f.write('\n'.join(base_lines) + '\n#define SNOOPY_CONF_CONFIGFILE_PATH "/x"\n#define SNOOPY_CONF_THREAD_SAFETY_ENABLED 1\n')
        for kind in REG:
            for n in U[kind]:
                f.write('#define %s%s 1\n' % (REG[kind][4], n))
    open(os.path.join(d, 'main_seq.c'), 'w').write(SEQ_MAIN)
    exe = os.path.join(d, 'q')
    r = sh(['gcc', '-O0', '-std=c99', '-I' + d, '-I' + os.path.join(repo, 'src'), '-I' + repo] + [os.path.join(repo, REG[k][0]) for k in REG] + [os.path.join(repo, 'src/genericregistry.c'), os.path.join(d, 'main_seq.c')] +
           [os.path.join(root, 'stubs_%s.o' % k) for k in REG] + ['-o', exe])
    if r.returncode:
        ck.violation('C13:configuration_does_not_compile:all-three-registries', {'error': r.stderr.decode()[:800]})
        return 0, 0
    letter = {'datasource': 'd', 'filter': 'f', 'output': 'o'}
    names = {k: U[k] + extra[k] for k in REG}
    full = [(letter[k] + ':' + n, n) for k in REG for n in names[k]] + [(letter[k] + ':nosuch', 'UNKNOWN') for k in REG]
    shared = set(n for k in REG for n in names[k] if sum(n in names[j] for j in REG) > 1)
    # table order = order of the compiled table, unknown here; sorted order is as good for picking three spread entries
    small = []
    for k in REG:
        pick = sorted(set([names[k][0], names[k][len(names[k]) // 2], names[k][-1]]) | (shared & set(names[k])))
        small += [(letter[k] + ':' + n, n) for n in pick] + [(letter[k] + ':nosuch', 'UNKNOWN')]
    seqs = [s for s in itertools.product(full, repeat=2)] + ([] if quick else [s for s in itertools.product(small, repeat=3)])
    seqs = [(s,) for s in full] + seqs

    def one(seq):
        rr = sh([exe] + [t for t, _ in seq], timeout=30)
        return rr.returncode, rr.stdout.decode('latin-1')
    bad = 0
    outcomes = set()
    for seq, (rc, out) in zip(seqs, pmap(one, seqs)):
        got = [l.split('=', 1)[1] for l in out.splitlines() if '=' in l]
        want = [w for _, w in seq]
        outcomes.add(tuple(got[-1:]))
        if rc != 0 or got != want:
            bad += 1
            if bad <= 5:
                ck.violation('C13:binding_depends_on_lookup_history:%s:runs=%s' % ('>'.join(t for t, _ in seq), ','.join(got) if rc == 0 else 'crash(rc=%d)' % rc),
                             {'lookups_in_order': [t for t, _ in seq], 'each_ran': got, 'expected': want, 'rc': rc,
                              'note': 'd:/f:/o: = data source / filter / output registry; one process, one thread, look-ups in this order'})
    shutil.rmtree(d, ignore_errors=True)
    return len(seqs), len(outcomes)


def universe(repo):
    """every feature switch of the three registries: from the registry sources themselves (every SNOOPY_CONF_<KIND>_ENABLED_<name>
    they test) plus configure's template when present (config.h.in is a git-ignored autotools product)"""
    u = {}
    cin = ''
    try:
        cin = open(os.path.join(repo, 'config.h.in')).read()
    except FileNotFoundError:
        pass
    for kind, (path, _, _, _, sw) in REG.items():
        src = open(os.path.join(repo, path)).read()
        u[kind] = sorted(set(re.findall(r'#undef ' + sw + r'(\w+)', cin)) | set(re.findall(r'^[ \t]*#[ \t]*if(?:def)?[ \t]+(?:defined[ \t]*\(?[ \t]*)?' + sw + r'(\w+)', src, re.M)))   # real directives only (the sources carry commented-out ones)
    return u


def stubs_source(kind, names):
    out = ['#include <stddef.h>', '#include <stdio.h>', 'extern const char *last_called;']
    _, pre, fpre, fsuf, _ = REG[kind]
    for n in names:
        f = fpre + n + fsuf
        if kind == 'datasource':
            out.append('int %s(char * const r, size_t s, char const * const a) { (void)s; (void)a; (void)r; last_called = "%s"; return 1; }' % (f, n))
        elif kind == 'filter':
            out.append('int %s(char const * const a) { (void)a; last_called = "%s"; return 1; }' % (f, n))
        else:
            out.append('int %s(char const * const m, char const * const a) { (void)m; (void)a; last_called = "%s"; return 1; }' % (f, n))
    return '\n'.join(out) + '\n'


def run(ck):
    repo = os.environ.get('VERIF_REPO', REPO)
    tables, n_pos, model_ok = model_check(ck, repo)
    U = universe(repo)
    extra = {'datasource': ['noop', 'failure'], 'filter': ['noop'], 'output': ['noop']}
    root = os.path.join(ck.workdir, 'c')
    os.makedirs(root, exist_ok=True)
    base_cfg = open(os.path.join(VERIF, 'engine/config.base.h')).read()
    base_lines = [l for l in base_cfg.splitlines() if not re.match(r'#define SNOOPY_CONF_(DATASOURCE|FILTER|OUTPUT)_ENABLED_|#define SNOOPY_CONF_THREAD_SAFETY_ENABLED|#define SNOOPY_CONF_CONFIGFILE_PATH', l)]
    q = ck.tier == 'quick'
    confs = []     # (kind, enabled set, thread safety)
    fl, ol, dl = U['filter'], U['output'], U['datasource']
    for r in range(len(fl) + 1):
        for c in itertools.combinations(fl, r):
            confs.append(('filter', frozenset(c), True))
    for r in range(len(ol) + 1):
        for c in itertools.combinations(ol, r):
            confs.append(('output', frozenset(c), True))
    for ts in (True, False):
        confs.append(('datasource', frozenset(dl), ts))
        confs.append(('datasource', frozenset(), ts))
        for d in dl:
            confs.append(('datasource', frozenset(dl) - {d}, ts))
            confs.append(('datasource', frozenset([d]), ts))
        if not q:
            for a, b in itertools.combinations(dl, 2):
                confs.append(('datasource', frozenset(dl) - {a, b}, ts))
                confs.append(('datasource', frozenset([a, b]), ts))
    # stubs and drivers once per kind
    for kind, (path, pre, fpre, fsuf, sw) in REG.items():
        names = U[kind] + extra[kind]
        open(os.path.join(root, 'stubs_%s.c' % kind), 'w').write(stubs_source(kind, names))
        call = {'datasource': 'char b[8]; %s_callByName(argv[i], b, sizeof b, "");' % pre, 'filter': '%s_callByName(argv[i], "");' % pre, 'output': '%s_callByName(argv[i], "m", "");' % pre}[kind]
        route = {'datasource': '',
                 'filter': 'extern int snoopy_filtering_check_chain(char const * const); char spec[300]; snprintf(spec, sizeof spec, "%s:arg", argv[i]); if (argv[i][0]) snoopy_filtering_check_chain(spec);',
                 'output': 'extern snoopy_configuration_t verif_cfg; extern int snoopy_outputregistry_dispatch(char const * const); verif_cfg.output = argv[i]; verif_cfg.output_arg = ""; snoopy_outputregistry_dispatch("m");'}[kind]
        open(os.path.join(root, 'main_%s.c' % kind), 'w').write(('#include "configuration.h"\nsnoopy_configuration_t verif_cfg;\nsnoopy_configuration_t *snoopy_configuration_get(void) { return &verif_cfg; }\n' if kind == 'output' else '') +
                                                                  STUB_MAIN % {'hdr': os.path.basename(path)[:-2] + '.h', 'pre': pre, 'call': call, 'route': route})
        r = sh(['gcc', '-O0', '-c', os.path.join(root, 'stubs_%s.c' % kind), '-o', os.path.join(root, 'stubs_%s.o' % kind)])
        if r.returncode:
            raise build.BuildError(r.stderr.decode()[:1500])

    def one(a):
        i, (kind, en, ts) = a
        path, pre, fpre, fsuf, sw = REG[kind]
        d = os.path.join(root, 'k%d' % i)
        os.makedirs(d, exist_ok=True)
        with open(os.path.join(d, 'config.h'), 'w') as f:
            f.write('\n'.join(base_lines) + '\n#define SNOOPY_CONF_CONFIGFILE_PATH "/x"\n')
            if ts:
                f.write('#define SNOOPY_CONF_THREAD_SAFETY_ENABLED 1\n')
            for n in sorted(en):
                f.write('#define %s%s 1\n' % (sw, n))
        exe = os.path.join(d, 'q')
        r = sh(['gcc', '-O0', '-std=c99', '-I' + d, '-I' + os.path.join(repo, 'src'), '-I' + repo, os.path.join(repo, path), os.path.join(repo, 'src/genericregistry.c')] + ([os.path.join(repo, 'src/filtering.c')] if kind == 'filter' else []) + [
                os.path.join(root, 'main_%s.c' % kind), os.path.join(root, 'stubs_%s.o' % kind), '-o', exe])
        if r.returncode:
            shutil.rmtree(d, ignore_errors=True)
            return ('builderr', r.stderr.decode()[:800])
        names = U[kind] + extra[kind]
        probes = names + ['nosuch', ''] + sorted(set(n[:-1] for n in names if len(n) > 1) - set(names))
        rr = sh([exe] + probes)
        shutil.rmtree(d, ignore_errors=True)
        return ('ok', rr.stdout.decode(), rr.returncode, probes)
    evals = 0
    outcomes = set()
    samples = []
    validated = 0
    for (kind, en, ts), res in zip(confs, pmap(one, list(enumerate(confs)))):
        tag = '%s:ts=%d:on=%d' % (kind, ts, len(en))
        label = '%s:ts=%d:%s' % (kind, ts, ('all-but-' + ','.join(sorted(set(U[kind]) - en))) if len(en) > len(U[kind]) / 2 else ('only-' + ','.join(sorted(en))))
        if res[0] == 'builderr':
            ck.violation('C13:configuration_does_not_compile:%s' % label[:100], {'configuration': label, 'error': res[1]})
            continue
        _, out, rc, probes = res
        got = dict(l.split('=', 1) for l in out.splitlines() if '=' in l)
        if rc != 0 or 'COUNT' not in got:
            ck.violation('C13:introspection_crashed:%s' % label[:100], {'configuration': label, 'rc': rc, 'stdout': out[-300:]})
            continue
        expected_on = set(en) | set(extra[kind])
        if kind == 'datasource' and not ts:
            expected_on.discard('snoopy_threads')
        for p in probes:
            evals += 1
            g = got.get(p)
            want = p if p in expected_on else 'UNKNOWN'
            if g != want:
                ck.violation('C13:%s:%s:name=%s:runs=%s' % ('wrong_binding' if want != 'UNKNOWN' and g != 'UNKNOWN' else ('missing' if g == 'UNKNOWN' else 'disabled_or_unknown_name_resolves'), label[:80], p, g),
                             {'configuration': label, 'name': p, 'resolves_to': g, 'expected': want})
        if kind in ('filter', 'output'):
            for p in probes:
                if not p:
                    continue
                evals += 1
                g = got.get('ROUTE:' + p)
                want = p if p in expected_on else '-'
                if g != want:
                    ck.violation('C13:wrong_binding_through_%s:%s:name=%s:runs=%s' % ('filter_chain' if kind == 'filter' else 'output_dispatch', label[:80], p, g),
                                 {'configuration': label, 'name': p, 'runs': g, 'expected': want, 'route': 'snoopy_filtering_check_chain' if kind == 'filter' else 'snoopy_outputregistry_dispatch'})
        if int(got['COUNT']) != len(expected_on):
            ck.violation('C13:count:%s:got=%s:want=%d' % (label[:80], got['COUNT'], len(expected_on)), {'configuration': label})
        # trace binding: the model's predicted table for this configuration equals the compiled one
        if kind in tables:
            defs = set(REG[kind][4] + n for n in en) | ({'SNOOPY_CONF_THREAD_SAFETY_ENABLED'} if ts else set())
            pred = [n for g, n in tables[kind][0] if g <= defs]
            comp = [p for p in probes if got.get(p) not in (None, 'UNKNOWN')]
            if sorted(pred) == sorted(set(comp) & set(U[kind] + extra[kind])):
                validated += 1
            else:
                ck.violation('C13:model_disagrees_with_compiled_table:%s' % label[:90], {'model': pred, 'compiled': comp})
        outcomes.add((tag, tuple(sorted(expected_on))[:3], got['COUNT']))
        if len(samples) < 4 and len(outcomes) % 97 == 3:
            samples.append({'configuration': label, 'count': got['COUNT']})
    # ---- (3) real builds: the library's own sources, selected as the Makefile.am conditionals select them, must link in every single-feature-off build
    n_real = real_builds(ck, repo, U, base_lines, q)
    evals += n_real
    # ---- (2b) look-up histories across the three registries (they share genericregistry.c)
    n_hist, n_hist_out = lookup_histories(ck, repo, U, extra, root, base_lines, q)
    evals += n_hist
    # ---- another object in the same process: the real shared library (project flags, -fvisibility=hidden) is preloaded BEHIND a decoy library that
    # defines the registries' table symbols with other contents (names rotated by one).  A table the library exports would be resolved to the decoy's
    # (symbol interposition), and every name would then invoke its neighbour's implementation; tables that are the library's own are unaffected.
    so = build.build_libsnoopy_so('c13-so', san='plain', repo=repo)
    dd = os.path.join(ck.workdir, 'decoy')
    os.makedirs(dd, exist_ok=True)
    dsrc = ['#include <stddef.h>']
    for kind in ('datasource', 'filter', 'output'):
        names = U[kind] + extra[kind]
        rot = ['zz_decoy'] + names[:-1]
        dsrc.append('char *snoopy_%sregistry_names[] = { %s, "" };' % (kind, ', '.join('"%s"' % n for n in rot)))
        dsrc.append('void *snoopy_%sregistry_ptrs[%d];' % (kind, len(names) + 1))
        dsrc.append('void *snoopy_%sregistry_argRequirements[%d];' % (kind, len(names) + 1))
    open(os.path.join(dd, 'decoy.c'), 'w').write('\n'.join(dsrc) + '\n')
    drv = ('#include <unistd.h>\n#include <stdlib.h>\nextern char **environ;\nint main(void) { char *av[] = { "prog", "one", "two", NULL }; execve("/nonexistent/bin/prog", av, environ); return 0; }\n')
    open(os.path.join(dd, 'drv.c'), 'w').write(drv)
    r1 = sh(['gcc', '-shared', '-fPIC', '-o', os.path.join(dd, 'libdecoy.so'), os.path.join(dd, 'decoy.c')])
    r2 = sh(['gcc', '-o', os.path.join(dd, 'drv'), os.path.join(dd, 'drv.c')])
    if r1.returncode or r2.returncode:
        raise RuntimeError('decoy build failed: ' + (r1.stderr + r2.stderr).decode()[:500])
    fmt = 'N=[%{noop}]|F=%{filename}|C=%{cmdline}|V=%{snoopy_version}|E=%{env:DECOYVAR}|L=%{snoopy_literal:abc}|U=%{uid}'   # %{noop} first: a name the filter registry has too
    want_of = None
    for label, preload in (('alone', so['so']), ('behind_a_library_that_defines_the_table_symbols', os.path.join(dd, 'libdecoy.so') + ':' + so['so'])):
        for chain, logged in (('only_root', True), ('exclude_uid:0', False), ('noop', True)):
            logp = os.path.join(dd, 'log-%s-%s' % (label[:6], chain[:6]))
            if os.path.exists(logp):
                os.unlink(logp)
            ini = os.path.join(dd, 'snoopy.ini')
            open(ini, 'w').write('[snoopy]\nmessage_format = "%s"\nfilter_chain = %s\noutput = file:%s\n' % (fmt, chain, logp))
            rr = sh([os.path.join(dd, 'drv')], env=dict(CLEAN_ENV, LD_PRELOAD=preload, VERIF_SNOOPY_INI=ini, DECOYVAR='envvalue'), timeout=60)
            got = open(logp, 'rb').read() if os.path.exists(logp) else b''
            version = re.search(r'#define PACKAGE_VERSION "([^"]*)"', open(os.path.join(so['dir'], 'inc/config.h')).read()).group(1)
            want = (b'N=[]|F=/nonexistent/bin/prog|C=prog one two|V=' + version.encode() + b'|E=envvalue|L=abc|U=0\n') if logged else b''
            n_pos += 1
            if rr.returncode != 0 or got != want:
                ck.violation('C13:name_runs_another_implementation:%s:chain=%s' % (label, chain), {'preload': preload, 'rc': rr.returncode, 'got': got.decode('latin-1')[:300], 'want': want.decode('latin-1'), 'stderr': rr.stderr.decode('latin-1')[-300:]})
    ck.coverage(states=len(outcomes) + n_pos, real_library_builds=n_real, transitions=evals, traces_validated_against_impl=validated, evaluations=evals, distinct_nontrivial=len(outcomes),
                rule='model: every table position; implementation: every probe name in every enumerated configuration; distinct = distinct (registry, thread safety, enabled set)',
                lookup_histories=n_hist, lookup_history_depth=2 if q else 3, model_positions_checked=n_pos, model_complete=model_ok, configurations_compiled=len(confs), samples=samples or [{'note': 'none'}])


def makefile_sources(repo):
    """[(frozenset(conditions), path)] for every .c file listed in the src Makefile.am files (automake `if X` / `endif` nesting)"""
    out = []
    for sub in ('src', 'src/action', 'src/datasource', 'src/filter', 'src/output', 'src/util', 'src/entrypoint', 'lib/inih/src'):
        mf = os.path.join(repo, sub, 'Makefile.am')
        if not os.path.exists(mf):
            continue
        stack = []
        target = None
        for raw in open(mf):
            l = raw.strip()
            m = re.match(r'^if\s+(\w+)', l)
            if m:
                stack.append(m.group(1))
                continue
            if l.startswith('endif'):
                if stack:
                    stack.pop()
                continue
            m = re.match(r'^(\w+)_SOURCES\s*\+?=', l)
            if m:
                target = m.group(1)
            for f in re.findall(r'([\w./-]+\.c)\b', l):
                if target and ('test' in target or target.startswith('snoopyctl')):
                    continue
                out.append((frozenset(stack), os.path.join(sub, f)))
    return out


def real_builds(ck, repo, U, base_lines, quick):
    srcs = [(c, f) for c, f in makefile_sources(repo) if os.path.exists(os.path.join(repo, f)) and '/cli/' not in f and 'test' not in os.path.basename(f)]
    # what ./configure itself allows: forced features cannot be switched off, and "A requires B" rules (configure aborts otherwise)
    forced, requires = set(), []
    try:
        cac0 = open(os.path.join(repo, 'configure.ac')).read()
        for m in re.finditer(r'SNOOPY_CONFIGURE_(DATASOURCE|FILTER|OUTPUT)_FORCE\(\s*\[(\w+)\]', cac0):
            forced.add((m.group(1).lower(), m.group(2)))
        for m in re.finditer(r'enable_datasource_(\w+)"\s*=\s*"xyes"\s*-a\s*"x\$enable_datasource_(\w+)"\s*=\s*"xno"', cac0):
            requires.append((m.group(1), m.group(2)))
    except FileNotFoundError:
        pass
    confs = [('all-on', {}, True)]
    for kind, sw in (('datasource', 'DATASOURCE_ENABLED_'), ('filter', 'FILTER_ENABLED_'), ('output', 'OUTPUT_ENABLED_')):
        for n in U[kind]:
            if (kind == 'output' and n == 'syslog') or (kind, n) in forced:
                continue
            off = {sw + n}
            if kind == 'datasource':
                off |= {'DATASOURCE_ENABLED_' + a for a, b in requires if b == n}     # dependants go off with it
            confs.append(('%s-%s-off' % (kind, n), off, True))
    confs.append(('thread-safety-off', set(), False))
    root = os.path.join(ck.workdir, 'real')
    os.makedirs(root, exist_ok=True)
    inih = build.inih_flags(repo)
    derived = {}
    try:
        cac = open(os.path.join(repo, 'configure.ac')).read()
        for m in re.finditer(r'SNOOPY_CONFIGURE_DATASOURCE_ENABLE\(\s*\[(\w+)\]\s*,.*?,\s*\[(INCLUDE_\w+)\]\s*\)', cac):
            derived.setdefault('DATASOURCE_' + m.group(2), set()).add(m.group(1))
    except FileNotFoundError:
        pass
    known = set(derived) | {'FILTERING_ENABLED', 'CONFIGFILE_ENABLED', 'THREAD_SAFETY_ENABLED'}
    unknown_conds = set(c for cs, f in srcs for c in cs if c not in known and not re.match(r'(DATASOURCE|FILTER|OUTPUT)_ENABLED_', c))
    if unknown_conds:
        ck.assumptions.append('Makefile.am conditionals assumed true in the real-build pass: %s' % sorted(unknown_conds))

    def one(a):
        i, (label, off, ts) = a
        d = os.path.join(root, 'r%d' % i)
        os.makedirs(d, exist_ok=True)
        on = set()
        for kind, sw in (('datasource', 'DATASOURCE_ENABLED_'), ('filter', 'FILTER_ENABLED_'), ('output', 'OUTPUT_ENABLED_')):
            for n in U[kind]:
                if sw + n not in off and not (kind == 'output' and n == 'syslog'):
                    on.add(sw + n)
        conds = set(on) | {'FILTERING_ENABLED', 'CONFIGFILE_ENABLED'} | ({'THREAD_SAFETY_ENABLED'} if ts else set())
        # derived conditionals (configure.ac: third argument of SNOOPY_CONFIGURE_DATASOURCE_ENABLE): true when any dependent data source is on
        for cond, deps in derived.items():
            if any('DATASOURCE_ENABLED_' + x in on for x in deps):
                conds.add(cond)
        conds |= unknown_conds          # conditionals this extractor does not understand are assumed true
        with open(os.path.join(d, 'config.h'), 'w') as f:
            f.write('\n'.join(base_lines) + '\n#define SNOOPY_CONF_CONFIGFILE_PATH "/x"\n')
            if ts:
                f.write('#define SNOOPY_CONF_THREAD_SAFETY_ENABLED 1\n')
            for n in sorted(on):
                f.write('#define SNOOPY_CONF_%s 1\n' % n)
        files = sorted(set(f for c, f in srcs if c <= conds and not f.endswith(('test-cli.c', 'execve-wrapper-test-configfile-env.c'))))
        objs = []
        for f in files:
            o = os.path.join(d, f.replace('/', '__')[:-2] + '.o')
            r = sh(['gcc', '-O0', '-std=c99', '-fPIC', '-fvisibility=hidden', '-I' + d, '-I' + os.path.join(repo, 'src'), '-I' + repo] + (inih if f.endswith('ini.c') else []) + ['-c', os.path.join(repo, f), '-o', o])
            if r.returncode:
                shutil.rmtree(d, ignore_errors=True)
                return (label, 'compile', f + ': ' + r.stderr.decode()[:600])
            objs.append(o)
        r = sh(['gcc', '-shared', '-o', os.path.join(d, 'lib.so')] + objs + ['-Wl,--no-undefined', '-ldl', '-lpthread'])
        shutil.rmtree(d, ignore_errors=True)
        if r.returncode:
            return (label, 'link', r.stderr.decode()[:800])
        return (label, 'ok', len(files))
    n = 0
    for label, status, info in pmap(one, list(enumerate(confs))):
        n += 1
        if status != 'ok':
            und = sorted(set(re.findall(r"undefined reference to `(\w+)'", str(info))))
            ck.violation('C13:build_%s_fails:%s:%s' % (status, label, ','.join(und)[:80]), {'configuration': label, 'stage': status, 'error': info})
    return n
