"""C12 - identity and environment data sources report the process's true state.

Enumeration of CONSTRUCTED process states (the harness is root): every data source is called through
the registry in a real process whose ids, session, working directory, stdin, environment, host name
and ancestor chain were set up for the purpose, and compared with the same fact obtained by a
different route (raw system calls, /proc/self/stat, readlink of /proc/self/cwd and fd/0, own parse
of /etc/passwd and /etc/group, strftime on every second of the bracketing interval).
"""
import os, json, time, itertools, shutil, re
from engine import harness as H, build
from engine.common import pmap, sh, VERIF, CLEAN_ENV

META = {
    'level': 'model_checking',
    'technique': 'exhaustive enumeration of constructed process states (factored product + full two-value product of all dimensions), independent per-state oracle',
    'text': 'States: all 9x9 combinations of (real,effective,saved) uid triples and gid triples over ids with and without passwd/group entries; 6 working-directory kinds (/, 300 B, 4000 B, beyond PATH_MAX, renamed, deleted) '
            'x 4 stdin kinds (pty owned by uid 1, pipe, /dev/null, closed) x new session or not; 5 environments x SUDO_USER/LOGNAME; host names in a private UTS namespace; ancestor chains of depth 1-3; '
            'plus the full product of a two-value reduction of every dimension (independence check). Every single strftime conversion, all ordered pairs of 12 of them, literals, empty and over-long formats. '
            'All 35 applicable data sources are read in every state and compared with the oracle.'
            " Also: variants of /etc/passwd and /etc/group (and an empty /etc) bound over the real files, 1 500 cgroup texts x 19 selectors, PID namespaces with and without their own /proc (root process with a chosen name), login names around 254 bytes, an exec'ed image in secure-execution mode.",
    'note': 'Where the statement leaves a placeholder text open (no terminal, removed cwd) the oracle only requires "not a wrong value"; for ids without an entry it demands the documented placeholder (user-UID / (undefined)) '
            'unless the name service as a whole knows a name. domain/ipaddr/systemd_unit_name are observed in the one state the sandbox offers. Trusted: the kernel interfaces used as the second route.',
}

NATIVE = os.path.join(VERIF, 'native')
DS_BASE = ['uid', 'euid', 'gid', 'egid', 'username', 'eusername', 'group', 'egroup', 'pid', 'ppid', 'sid', 'tid', 'tid_kernel', 'cwd', 'hostname', 'tty', 'tty_uid', 'tty_username', 'login',
           'env:A', 'env:EQ', 'env:EMPTY', 'env:NOPE', 'env:BIG', 'env_all', 'rpname', 'timestamp', 'timestamp_ms', 'timestamp_us', 'snoopy_version', 'datetime', 'datetime:%s', 'cgroup:0', 'cgroup:4', 'cgroup:memory',
           'cgroup:name=systemd', 'cgroup:77', 'cgroup:nosuch', 'cgroup:cpu', 'cgroup:cpuset', 'cgroup:cpuse', 'cgroup:mem', 'cgroup:name=system', 'cgroup:pids', 'cgroup:1', 'cgroup:9', 'cgroup:10', 'filename', 'cmdline']


def parse_db(path, idcol):
    d = {}
    for l in open(path, errors='replace'):
        p = l.rstrip('\n').split(':')
        if len(p) > idcol and p[idcol].isdigit():
            d.setdefault(int(p[idcol]), p[0])
    return d


def hx(s):
    return s.encode('latin-1').hex() if isinstance(s, str) else s.hex()


def states(tier):
    idv = [0, 1, 54321]
    trip = [t for t in itertools.permutations(idv, 3)] + [(x, x, x) for x in idv]
    S = []
    base = dict(ids=(0, 0, 0, 0, 0, 0), setsid=0, cwd='root', stdin='null', env='three', sudo=0, logname=0, host='-', chain='', ptyowner=0, orphan=0, tz='VRF-3:30', newpgrp=0, pwd='none', forked=0)
    # (b1) ids x gids
    for u in trip:
        for g in trip:
            S.append(dict(base, ids=u + g))
    # (b1b) ids beyond 2^31 (no entries): uid/gid as unsigned numbers, also inside placeholders
    for u, g in (((4000000000, 4000000000, 4000000000), (4000000001, 4000000001, 4000000001)), ((2147483648, 4294967294, 0), (2147483647, 4294967294, 0)), ((0, 2147483648, 0), (0, 4000000000, 0))):
        S.append(dict(base, ids=u + g))
        S.append(dict(base, ids=u + g, stdin='pty', ptyowner=4000000000))
    # (b2) cwd x stdin x setsid
    for c in ('root', 'd300', 'd4000', 'd4200', 'dhuge', 'd9000', 'renamed', 'deleted'):
        for si in ('pty', 'pipe', 'null', 'closed'):
            for ss in (0, 1):
                S.append(dict(base, cwd=c, stdin=si, setsid=ss, ptyowner=1))
    # (b2b) stdin on a pty whose device path is long (a devpts instance mounted elsewhere)
    for ss in (0, 1):
        for po in (0, 1, 54321):
            S.append(dict(base, stdin='ptylong', setsid=ss, ptyowner=po))
    # (b3) env x sudo/logname x ids
    for e in ('empty', 'three', 'special', 'big', 'huge', 'malformed'):
        for su, ln in ((0, 0), (1, 0), (0, 1), (1, 1)):
            for u in ((0, 0, 0), (1, 54321, 0)):
                S.append(dict(base, env=e, sudo=su, logname=ln, ids=u + (0, 0, 0)))
    # (b3b) login names around the data source's own 254-byte limit (through SUDO_USER and through LOGNAME)
    for n in (253, 254, 255, 256, 300):
        S.append(dict(base, logname=n))
        S.append(dict(base, sudo=n, logname=1))
    # (b4) host x chain
    for h in ('-', 'short', 'h' * 64):
        for ch in ('', 'alpha', 'alpha/beta b', 'alpha/(x)/gamma'):
            S.append(dict(base, host=h, chain=ch))
    # (b6) own process group without a new session; other time zones
    for np in (0, 1):
        for tz in ('UTC', 'VRF-3:30', 'ABC5DEF'):
            S.append(dict(base, newpgrp=np, tz=tz, setsid=0))
    # (b6b) the caller changes TZ after time conversions have taken place: the zone in force NOW, and the same instant (%s), are what the next record shows
    # (these states were withdrawn in round 5 together with a tzset() call that created a fork hazard; since 062c916 the conversion runs under a guard
    #  the fork handlers take, and the states are back - DESIGN.md section 6.2)
    for tz in ('UTC', 'VRF-3:30'):
        for tz2 in ('UTC', 'VRF-3:30', 'ABC5', 'XYZ-11'):
            if tz != tz2:
                S.append(dict(base, tz=tz, tz2=tz2))
    # (b7) $PWD naming the working directory exactly / by an alias / wrongly; evaluation in a forked child after a first evaluation in the parent
    for pw in ('exact', 'dotalias', 'symlink', 'other'):
        for c in ('d300', 'root'):
            S.append(dict(base, pwd=pw, cwd=c))
    for fk in (1,):
        for ss in (0, 1):
            for u in ((0, 0, 0), (1, 54321, 0)):
                S.append(dict(base, forked=fk, setsid=ss, ids=u + (1, 0, 54321), stdin='pty', ptyowner=1))
    # (b8) the image that evaluates the data sources was itself exec'ed in the state (secure-execution mode when real != effective ids)
    for u, g in (((0, 0, 0), (0, 0, 0)), ((1, 54321, 54321), (0, 0, 0)), ((0, 0, 0), (1, 54321, 54321)), ((54321, 1, 1), (54321, 1, 1)), ((1, 0, 0), (1, 1, 1))):
        for e in ('three', 'special'):
            for su, ln in ((0, 0), (1, 1)):
                S.append(dict(base, ids=u + g, env=e, sudo=su, logname=ln, exec2=1))
    # (b8b) ... with the login variables as the last strings below the top of the new image's stack
    for su, ln in ((0, 1), (1, 0), (1, 1), (0, 254), (254, 1)):
        for e in ('empty', 'three'):
            S.append(dict(base, env=e, sudo=su, logname=ln, exec2=1, lognamelast=1))
    # (b5) ancestor chain of length one: orphaned process (parent is init / a subreaper), with and without a renamed chain above
    for ch in ('', 'alpha', 'alpha/beta b'):
        for ss in (0, 1):
            S.append(dict(base, orphan=1, chain=ch, setsid=ss))
    # (b9) pid 1 of a new PID namespace under the outer namespace's /proc (numbers under /proc are not this namespace's)
    for ch in ('', 'alpha', 'alpha/beta b'):
        for ss in (0, 1):
            for si in ('null', 'pty'):
                S.append(dict(base, pidns=1, chain=ch, setsid=ss, stdin=si, ptyowner=1))
    # (b10) the chain inside a new PID namespace with its own /proc: the root process (child of that namespace's pid 1) carries a name of the state's
    # choosing - with blanks, a tab, a colon, parentheses, 15 bytes
    for ch in ('init/tmux: server/x', 'init/Web Content', 'init/a\tb/y', 'init/(sd-pam)/z', 'init/fifteen bytes !/w', 'init/ lead', 'init/trail /q'):
        for ss in (0, 1):
            S.append(dict(base, pidns=2, chain=ch, setsid=ss))
    # (a) two-value product of every dimension
    two = dict(ids=[(0, 0, 0, 0, 0, 0), (1, 54321, 0, 54321, 1, 0)], setsid=[0, 1], cwd=['root', 'd4000'], stdin=['pty', 'pipe'], env=['three', 'huge'], sudo=[0, 1], host=['-', 'twohost'], chain=['', 'aa/bb'])
    keys = list(two)
    for combo in itertools.product(*[two[k] for k in keys]):
        S.append(dict(base, ptyowner=1, **dict(zip(keys, combo))))
    return S


def base_state():
    return dict(ids=(0, 0, 0, 0, 0, 0), setsid=0, cwd='root', stdin='null', env='three', sudo=0, logname=0, host='-', chain='', ptyowner=0, orphan=0, tz='VRF-3:30', newpgrp=0, pwd='none', forked=0)


def spec_of(st, ds, work):
    parts = ['ids=%s' % ','.join(map(str, st['ids'])), 'setsid=%d' % st['setsid'], 'cwd=' + st['cwd'], 'stdin=' + st['stdin'], 'env=' + st['env'], 'sudo=%d' % st['sudo'], 'logname=%d' % st['logname'],
             'host=' + st['host'], 'ptyowner=%d' % st['ptyowner'], 'orphan=%d' % st.get('orphan', 0), 'tz=' + st.get('tz', 'UTC'), 'newpgrp=%d' % st.get('newpgrp', 0), 'pwd=' + st.get('pwd', 'none'), 'exec2=%d' % st.get('exec2', 0), 'forked=%d' % st.get('forked', 0), 'work=' + work, 'ds=' + ','.join(hx(d) for d in ds)] + (['cgfile=' + hx(st['cgfile'])] if st.get('cgfile') else []) + (['etc=' + st['etc']] if st.get('etc') else []) + (['tz2=' + st['tz2']] if st.get('tz2') else []) + (['lognamelast=1'] if st.get('lognamelast') else []) + (['pidns=%d' % st['pidns']] if st.get('pidns') else [])
    if st['chain']:
        parts.append('chain=' + '/'.join(hx(n) for n in st['chain'].split('/')))
    return ';'.join(parts)


def unh(j, k):
    return bytes.fromhex(j[k])


def check_state(st, out, pw, gr, version, strict_placeholders=False):
    """returns list of (datasource, problem)"""
    f = out['f']
    ds = {bytes.fromhex(k).decode('latin-1'): (v['rv'], bytes.fromhex(v['v'])) for k, v in out['ds'].items()}
    bad = []
    # with the production-sized result buffer (2048) every source must give the same text, cut to 2047 bytes at most
    for k, v in out['ds'].items():
        n = bytes.fromhex(k).decode('latin-1')
        big, small = bytes.fromhex(v['v']), bytes.fromhex(v['vs'])
        if n.startswith(('timestamp', 'datetime')):
            continue
        if n == 'env_all' and len(big) > 2047:
            if not (len(small) <= 2047 and big.startswith(small.rstrip(b'.')[:-0 or None].rstrip(b'.'))):
                bad.append((n, 'small-buffer value is not a prefix (+...) of the full value'))
            continue
        if (v['rv'] < 0) != (v['rvs'] < 0) or (v['rv'] >= 0 and small != big[:2047]):
            bad.append((n, 'with a 2048-byte result buffer: rv=%d value=%r...(len %d); with a large one: rv=%d (len %d)' % (v['rvs'], small[:30], len(small), v['rv'], len(big))))

    def val(n):
        return ds[n][1].decode('latin-1')

    def expect(n, want):
        if n == 'login' and len(str(want)) > 254:
            want = str(want)[:254]       # the data source documents a 254-byte maximum
        if val(n) != str(want):
            bad.append((n, 'got=%r want=%r' % (val(n)[:60], str(want)[:60])))
    expect('uid', f['ruid']); expect('euid', f['euid']); expect('gid', f['rgid']); expect('egid', f['egid'])
    expect('pid', f['pid']); expect('ppid', f['ppid']); expect('sid', f['sid']); expect('tid', f['tid']); expect('tid_kernel', f['tid_kernel'])
    for n, idv, db in (('username', f['ruid'], pw), ('eusername', f['euid'], pw), ('group', f['rgid'], gr), ('egroup', f['egid'], gr)):
        if idv in db:
            expect(n, db[idv])
        elif val(n) in db.values():
            bad.append((n, 'id %d has no entry but an existing name %r was reported' % (idv, val(n))))
        elif strict_placeholders:
            # the files are readable (or plainly absent) and hold no entry; the name service as a whole (nss-systemd synthesises root and nobody)
            # has been asked through getpwuid()/getgrgid(): its name, or - no entry there either - the documented "no such entry" text, not an error text
            key = {'username': 'ns_ruid', 'eusername': 'ns_euid', 'group': 'ns_rgid', 'egroup': 'ns_egid'}[n]
            want = unh(f, key + '_name').decode('latin-1') if f[key] == 1 else ('user-%d' % idv if n == 'username' else '(undefined)')
            if f[key] >= 0 and val(n) != want:
                bad.append((n, 'id %d has no entry in the files: got=%r, name service / documented placeholder=%r' % (idv, val(n)[:60], want)))
        else:
            # a placeholder is fine; one that spells out a number (the documented "user-UID" form) must spell the right one
            m = re.fullmatch(r'(?:[A-Za-z]+-)?(-?\d+)', val(n))
            if m and int(m.group(1)) != idv:
                bad.append((n, 'id %d has no entry; the placeholder %r names a different number' % (idv, val(n))))
    expect('hostname', unh(f, 'nodename').decode('latin-1'))
    # terminal family
    fd0 = unh(f, 'fd0').decode('latin-1')
    if f['fd0_isatty']:
        expect('tty', fd0)
        expect('tty_uid', f['fd0_uid'])
        if f['fd0_uid'] in pw:
            expect('tty_username', pw[f['fd0_uid']])
        elif strict_placeholders and f['ns_ttyuid'] >= 0:
            expect('tty_username', unh(f, 'ns_ttyuid_name').decode('latin-1') if f['ns_ttyuid'] == 1 else 'user-%d' % f['fd0_uid'])
    else:
        for n in ('tty', 'tty_uid', 'tty_username'):
            v = val(n)
            if v.startswith('/dev/') or v.isdigit() or v in pw.values():
                bad.append((n, 'no terminal on stdin but a concrete value %r was reported' % v))
    # cwd
    link = unh(f, 'cwd_link').decode('latin-1')
    cw = val('cwd')
    if st['cwd'] in ('d4200', 'dhuge', 'd9000') and not st.get('exec2'):
        link = unh(f, 'cwd_built').decode('latin-1')     # deeper than PATH_MAX: /proc/self/cwd cannot be read back, the path is known from how it was built
    if st['cwd'] in ('root', 'd300', 'd4000', 'renamed', 'd4200', 'dhuge', 'd9000'):
        if cw != link:
            bad.append(('cwd', 'got=%r(len %d) want=%r(len %d)' % (cw[-40:], len(cw), link[-40:], len(link))))
    else:   # deleted / beyond PATH_MAX: any placeholder, but not a different existing directory
        true = link.replace(' (deleted)', '')
        if cw and cw != true and not true.startswith(cw) and os.path.isdir(cw):
            bad.append(('cwd', 'unreadable cwd but a different existing directory %r was reported' % cw[-60:]))
    # environment
    env = [bytes.fromhex(x) for x in f['env']]
    envd = {}
    for e in env:
        k, _, v = e.partition(b'=')
        envd.setdefault(k, v)
    for n in ('A', 'EQ', 'EMPTY', 'NOPE', 'BIG'):
        got = ds['env:' + n][1]
        if n.encode() in envd:
            if got != envd[n.encode()]:
                bad.append(('env:' + n, 'got=%r want=%r' % (got[:40], envd[n.encode()][:40])))
        elif got in envd.values() and got != b'':
            bad.append(('env:' + n, 'unset variable reported as %r' % got[:40]))
    if ds['env_all'][1] != b','.join(env):
        bad.append(('env_all', 'got len %d want len %d' % (len(ds['env_all'][1]), len(b','.join(env)))))
    # login: getlogin_r, else SUDO_USER, else LOGNAME, else a placeholder
    if f['getlogin_r'] == 0:
        expect('login', unh(f, 'getlogin').decode('latin-1'))
    elif b'SUDO_USER' in envd:
        expect('login', envd[b'SUDO_USER'].decode('latin-1'))
    elif b'LOGNAME' in envd:
        expect('login', envd[b'LOGNAME'].decode('latin-1'))
    elif val('login') in pw.values():
        bad.append(('login', 'no login information but an existing user name %r was reported' % val('login')))
    expect('rpname', unh(f, 'rpname').decode('latin-1'))
    # time
    t0, t1 = f['t0'], f['t1']
    try:
        if not (t0 <= int(val('timestamp')) <= t1):
            bad.append(('timestamp', 'got=%s not in [%d,%d]' % (val('timestamp'), t0, t1)))
        if not (t0 <= int(val('datetime:%s')) <= t1):
            bad.append(('datetime:%s', 'outside bracket'))
    except ValueError:
        bad.append(('timestamp', 'not a number: %r' % val('timestamp')))
    if not re.match(r'^\d{3}$', val('timestamp_ms')):
        bad.append(('timestamp_ms', 'got=%r' % val('timestamp_ms')))
    if not re.match(r'^\d{6}$', val('timestamp_us')):
        bad.append(('timestamp_us', 'got=%r' % val('timestamp_us')))
    os.environ['TZ'] = st.get('tz', 'UTC')
    time.tzset()
    if val('datetime') not in [time.strftime('%Y-%m-%dT%H:%M:%S%z', time.localtime(t)) for t in range(t0, t1 + 1)]:
        bad.append(('datetime', 'got=%r' % val('datetime')))
    expect('snoopy_version', version)
    expect('filename', '/bin/prog'); expect('cmdline', 'prog arg')
    if st.get('tz2'):
        got, _, gots = bytes.fromhex(out['datetime_z_after_tz_change']['v']).decode('latin-1').partition('|')
        want = {'UTC': '+0000', 'VRF-3:30': '+0330', 'ABC5': '-0500', 'XYZ-11': '+1100'}[st['tz2']]
        if got != want:
            bad.append(('datetime:%z', 'TZ was changed to %s after earlier conversions; offset reported %r, in force %r' % (st['tz2'], got, want)))
        if not (gots.isdigit() and t0 - 1 <= int(gots) <= t1 + 2):
            bad.append(('datetime:%s', 'TZ was changed to %s after earlier conversions; %%s reports %r, the clock says %d..%d (another instant)' % (st['tz2'], gots, t0, t1)))
    # evaluated again, in reverse order, after all the others: same answer (clock readings aside)
    for k, v2 in out.get('again', {}).items():
        name = bytes.fromhex(k).decode('latin-1')
        if name.startswith(('timestamp', 'datetime')):
            continue
        if bytes.fromhex(v2['v']) != ds[name][1]:
            bad.append((name, 'second evaluation (after every other data source had run) gave %r, the first gave %r' % (bytes.fromhex(v2['v'])[:40], ds[name][1][:40])))
    # cgroup
    cg = unh(f, 'cgroup').decode('latin-1').splitlines()
    for sel in ('0', '4', '77', '1', '9', '10'):
        want = [l for l in cg if l.startswith(sel + ':')]
        expect('cgroup:' + sel, want[0] if want else '(none)')
    for sel in ('memory', 'name=systemd', 'nosuch', 'cpu', 'cpuset', 'cpuse', 'mem', 'name=system', 'pids'):
        want = [l for l in cg if sel in l.split(':')[1].split(',')]
        expect('cgroup:' + sel, want[0] if want else '(none)')
    return bad


def run(ck):
    v = H.build_exec_harness('c12-ts-asan')
    h = build.link_harness(v, os.path.join(v['dir'], 'h_state'), [os.path.join(NATIVE, 'h_state.c'), os.path.join(NATIVE, 'seam.c')])
    pw, gr = parse_db('/etc/passwd', 2), parse_db('/etc/group', 2)
    version = re.search(r'#define PACKAGE_VERSION "([^"]*)"', open(os.path.join(v['dir'], 'inc/config.h')).read()).group(1)
    S = states(ck.tier)
    os.chmod(ck.workdir, 0o755)
    cnt = [0]

    def one(st, ds=DS_BASE):
        cnt[0] += 1
        w = os.path.join(ck.workdir, 's%d' % cnt[0])
        os.makedirs(w, exist_ok=True)
        os.chmod(w, 0o777)
        env = H.san_env(w)
        r = sh([h, spec_of(st, ds, w)], env=env, cwd=w, timeout=60)
        reports = [open(os.path.join(w, f), errors='replace').read()[:2000] for f in os.listdir(w) if f.startswith(('asan.', 'ubsan.'))]
        shutil.rmtree(w, ignore_errors=True)
        try:
            return json.loads(r.stdout.decode('latin-1').strip().splitlines()[-1]), r, reports
        except Exception:
            return None, r, reports
    evals = 0
    outcomes = set()
    samples = []
    for st, (out, r, reports) in zip(S, pmap(one, S)):
        evals += 1
        tag = ('exec2,' if st.get('exec2') else '') + ('pidns_under_outer_proc,' if st.get('pidns') == 1 else 'chain_in_container_pidns,' if st.get('pidns') == 2 else '') + 'tz=%s,pg=%d,pwd=%s,forked=%d,' % (st.get('tz', 'UTC'), st.get('newpgrp', 0), st.get('pwd', 'none'), st.get('forked', 0)) + 'ids=%s,sid=%d,cwd=%s,stdin=%s,env=%s,sudo=%d,logname=%d,host=%s,chain=%s,orphan=%d' % ('/'.join(map(str, st['ids'])), st['setsid'], st['cwd'], st['stdin'], st['env'], st['sudo'], st['logname'], st['host'][:8], st['chain'], st.get('orphan', 0))
        if out is None or reports:
            ck.violation('C12:abort:%s' % tag, {'state': st, 'rc': r.returncode, 'stderr': r.stderr.decode('latin-1')[-400:], 'sanitizer': reports[:1]})
            continue
        bad = check_state(st, out, pw, gr, version)
        outcomes.add((tag, tuple(b[0] for b in bad)))
        for n, why in bad:
            ck.violation('C12:%s:%s' % (n, tag), {'datasource': n, 'problem': why, 'state': st})
        if len(samples) < 4 and evals % 101 == 3:
            samples.append({'state': tag, 'mismatches': [b[0] for b in bad]})
    # ---- user and group databases: variants of /etc/passwd and /etc/group bound over the real ones (private mount namespace)
    real_pw, real_gr = open('/etc/passwd').read(), open('/etc/group').read()
    def without(text, ids, col):
        return ''.join(l + '\n' for l in text.splitlines() if not (len(l.split(':')) > col and l.split(':')[col] in ids))
    members = ','.join('member%04d' % i for i in range(400))            # a group line of about 4 KB: common on real systems
    DBV = {
        'big_group_line': (real_pw, without(real_gr, ('0', '1'), 2) + 'root:x:0:' + members + '\ndaemon:x:1:' + members[:1100] + '\n'),
        'big_passwd_line': (without(real_pw, ('0', '1'), 2) + 'root:x:0:0:' + 'G' * 3000 + ':/root:/bin/sh\ndaemon:x:1:1:' + 'g' * 1100 + ':/:/bin/false\n', real_gr),
        'duplicates_first_wins': ('first:x:0:0::/:/bin/sh\n' + real_pw + 'late:x:1:1::/:/bin/sh\n', 'firstgrp:x:0:\n' + real_gr + 'lategrp:x:1:\n'),
        'long_names': (without(real_pw, ('0', '1'), 2) + 'r' * 32 + ':x:0:0::/:/bin/sh\n' + 'd' * 255 + ':x:1:1::/:/bin/sh\n', without(real_gr, ('0', '1'), 2) + 'R' * 32 + ':x:0:\n' + 'D' * 255 + ':x:1:\n'),
        'no_final_newline_and_junk': ('junk line\n\n# comment\n' + without(real_pw, ('1',), 2) + 'daemon:x:1:1::/:/bin/false', ':::\nnocolons\n' + without(real_gr, ('1',), 2) + 'daemon:x:1:'),
        'ids_removed': (without(real_pw, ('0', '1'), 2), without(real_gr, ('0', '1'), 2)),
    }
    dbstates, dbmaps = [], []
    for name, (pwt, grt) in DBV.items():
        d = os.path.join(ck.workdir, 'etc-' + name)
        os.makedirs(d, exist_ok=True)
        open(os.path.join(d, 'passwd'), 'w').write(pwt)
        open(os.path.join(d, 'group'), 'w').write(grt)
        os.chmod(d, 0o755)
        for f in ('passwd', 'group'):
            os.chmod(os.path.join(d, f), 0o644)
        for u, g in (((0, 0, 0), (0, 0, 0)), ((1, 0, 0), (1, 0, 0)), ((0, 1, 1), (0, 1, 1)), ((54321, 1, 0), (54321, 1, 0))):
            dbstates.append(dict(base_state(), ids=u + g, etc=d, dbname=name))
            dbmaps.append((parse_db(os.path.join(d, 'passwd'), 2), parse_db(os.path.join(d, 'group'), 2)))
    for u, g in (((0, 0, 0), (0, 0, 0)), ((1, 0, 0), (1, 0, 0)), ((0, 54321, 1), (0, 54321, 1)), ((4000000000, 1, 0), (4000000000, 1, 0))):
        for si in ('null', 'pty'):
            dbstates.append(dict(base_state(), ids=u + g, etc='@absent', dbname='files_absent', stdin=si, ptyowner=1))
            dbmaps.append(({}, {}))
    for st, (pwm, grm), (out, r, reports) in zip(dbstates, dbmaps, pmap(one, dbstates)):
        evals += 1
        tag = 'databases=%s,ids=%s%s' % (st['dbname'], '/'.join(map(str, st['ids'])), ',stdin=pty' if st['stdin'] == 'pty' else '')
        if out is None or reports:
            ck.violation('C12:abort:%s' % tag, {'state': {k: v for k, v in st.items() if k != 'etc'}, 'rc': r.returncode, 'stderr': r.stderr.decode('latin-1')[-400:], 'sanitizer': reports[:1]})
            continue
        bad = [b for b in check_state(st, out, pwm, grm, version, strict_placeholders=True) if b[0] in ('username', 'eusername', 'group', 'egroup', 'tty_username', 'login', 'uid', 'euid', 'gid', 'egid')]
        outcomes.add((tag, tuple(b[0] for b in bad)))
        for n, why in bad:
            ck.violation('C12:%s:%s' % (n, tag), {'datasource': n, 'problem': why, 'databases': st['dbname'], 'ids': st['ids']})
    # ---- control-group texts: every file of <= 3 lines over a line alphabet (x final newline or not), every selector
    CGL = ['9:name=systemd:/', '4:memory:/a/b', '3:cpu,cpuacct:/x', '2:cpuset:/y:with:colons', '1:net_cls,net_prio,cpu:/p,with,commas', '0::/unified', '12:pids:/' + 'd' * 3000,
           'garbage line', '5:mem:/short', '6:memoryx:/z', '7:cpu:', '8', '10:memory', '11:a,,b:/emptytoken']
    CGSEL = ['0', '1', '4', '12', '8', '99', 'memory', 'cpu', 'cpuacct', 'net_prio', 'net_cls', 'name=systemd', 'mem', 'cpuset', 'nosuch', 'a', 'b', 'cpu,cpuacct', 'pids']
    cgfiles = []
    for n in (1, 2, 3):
        for combo in itertools.product(CGL if (n < 3 or ck.tier == 'thorough') else CGL[:8], repeat=n):
            body = '\n'.join(combo)
            cgfiles += [body + '\n', body]
    cgfiles += ['\n', '\n'.join(CGL * 2) + '\n', '0::/' + 'p' * 10100 + '\n4:memory:/after-a-line-longer-than-10k\n', '\n'.join('%d:c%d:/%s' % (i, i, 'q' * 700) for i in range(13)) + '\n4:memory:/at-the-end\n']
    # (texts of 10 KiB and more are refused by the library's small-file helper by design: the data source then yields its error text;
    #  such a text needs cgroup nesting this sandbox cannot create for real, so it is outside the constructed states - see DESIGN.md section 8)
    cgfiles = [c for c in dict.fromkeys(cgfiles)]
    cgds = ['cgroup:' + x for x in CGSEL]
    cgstates = [dict(base_state(), cgfile=c) for c in cgfiles] + [dict(base_state(), cgfile=c, pidns=1) for c in cgfiles[:6]]
    for st, (out, r, reports) in zip(cgstates, pmap(lambda st: one(st, cgds), cgstates)):
        evals += 1
        label = st['cgfile'][:60].replace('\n', '|') + ('...(%d bytes)' % len(st['cgfile']) if len(st['cgfile']) > 60 else '')
        if out is None or reports:
            ck.violation('C12:abort:cgroup_text:%s' % label, {'cgroup_text': st['cgfile'][:400], 'rc': r.returncode, 'stderr': r.stderr.decode('latin-1')[-300:], 'sanitizer': reports[:1]})
            continue
        seen_text = unh(out['f'], 'cgroup').decode('latin-1')
        if seen_text != st['cgfile'][:len(seen_text)] or (len(seen_text) < len(st['cgfile']) and len(seen_text) < 8000):
            raise RuntimeError('the fake cgroup text was not in place: wanted %r, process saw %r' % (st['cgfile'][:80], seen_text[:80]))
        lines = st['cgfile'].split('\n')
        if lines and lines[-1] == '':
            lines.pop()
        for sel in CGSEL:
            got = bytes.fromhex(out['ds'][hx('cgroup:' + sel)]['v']).decode('latin-1')
            if sel.isdigit():
                want = [l for l in lines if l.startswith(sel + ':')]
            else:
                want = [l for l in lines if l.count(':') >= 2 and l.split(':')[1] and (sel == l.split(':')[1] or sel in l.split(':')[1].split(','))]
            w = want[0] if want else '(none)'
            outcomes.add(('cgtext', sel, bool(want), got == w))
            if got != w:
                ck.violation('C12:cgroup:%s:%stext=%s' % (sel, 'pidns_under_outer_proc:' if st.get('pidns') else '', label), {'selector': sel, 'cgroup_text': st['cgfile'][:600], 'got': got[:200], 'want': w[:200]})
    # ---- strftime formats (one state)
    conv = 'aAbBcCdDeFgGhHIjklmMnpPrRsStTuUVwWxXyYzZ%'
    fm = ['%' + c for c in conv]
    sub = 'YmdHMSjaZzsF'
    fm += ['%' + a + '-%' + b for a in sub for b in sub]
    fm += ['lit', 'a %Y b %% c', '%Y' * 10, '%c' * 5, 'x' * 70 + '%Y', 'x' * 79, 'x' * 80, '%', '%Q', '%E', '%Ey %Oy', '%10Y', '%-d', '%_H', '%^a']
    # requested formats whose expansion reaches 80 bytes: a verbose date with text around it, literal padding up to 79 / 80 / 81 / 300 bytes
    fm += ['%A, %d %B %Y, %H:%M:%S (%Z, UTC%z) - week %V of %G, day %j of the year', 'p' * 75 + '%Y', 'p' * 76 + '%Y', 'p' * 77 + '%Y', 'p' * 296 + '%Y']
    ds = ['datetime:' + f for f in fm]
    fstate = dict(ids=(0, 0, 0, 0, 0, 0), setsid=0, cwd='root', stdin='null', env='three', sudo=0, logname=0, host='-', chain='', ptyowner=0, orphan=0, tz='VRF-3:30', newpgrp=0)
    out, r, reports = one(fstate, ds)
    if out is None or reports:
        ck.violation('C12:abort:datetime_formats', {'rc': r.returncode, 'stderr': r.stderr.decode('latin-1')[-400:], 'sanitizer': reports[:1]})
    else:
        os.environ['TZ'] = fstate['tz']
        time.tzset()
        t0, t1 = out['f']['t0'], out['f']['t1']
        for k, vv in out['ds'].items():
            evals += 1
            name = bytes.fromhex(k).decode('latin-1')
            fmt = name.split(':', 1)[1]
            got = bytes.fromhex(vv['v']).decode('latin-1')
            want = set()
            for t in range(t0, t1 + 1):
                try:
                    want.add(time.strftime(fmt, time.localtime(t)))
                except Exception:
                    pass
            outcomes.add(('fmt', fmt, got))
            fits = all(0 < len(x.encode()) < 80 for x in want) and want
            if fits and got not in want:
                ck.violation('C12:datetime:fmt=%s' % fmt[:40], {'format': fmt, 'got': got, 'want_one_of': sorted(want)[:3]})
            elif want and all(len(x.encode()) >= 80 for x in want) and got not in want:
                # the time in the requested format is 80 bytes or longer (upstream's own expected-failure test datasource_datetime-fmt-too-long.sh)
                ck.violation('C12:datetime:expansion_of_80_bytes_or_more:got=%s:fmt=%s' % (re.sub(r'[^A-Za-z0-9]+', '_', got)[:30].strip('_'), fmt[:40]), {'format': fmt, 'got': got, 'want_one_of': sorted(want)[:2]})
    ck.assumptions += ['kernel interfaces (/proc, raw syscalls) are the second route and are trusted', 'domain / ipaddr / systemd_unit_name are observed in the one state the sandbox offers (not varied)']
    ck.coverage(states=len(outcomes), transitions=evals, traces_validated_against_impl=evals, evaluations=evals, distinct_nontrivial=len(outcomes), process_states=len(S), strftime_formats=len(fm),
                rule='constructed process states (factored products + 2^8 product) x all data sources; distinct = distinct (state, mismatch set) and (format, value)', samples=samples or [{'note': 'none'}])
