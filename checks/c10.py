"""C10 - exec in a forked child of a multithreaded process never deadlocks.

Same scheduler as C09.  Thread 0 forks (vs_fork) and the child makes a wrapped execve of its own
(optionally after forking once more); thread 1 makes K wrapped calls.  Exploring all schedules with
<= 1 preemption places the fork at EVERY scheduling point of thread 1's call(s) (before the first
operation, between any two consecutive synchronisation operations, after the last); <= 2 preemptions
adds every pair.  In the child the scheduler's copy marks the other threads as gone: "the child's
only thread is disabled forever" is the deadlock verdict (no timing involved).
"""
import os, shutil, re, time, threading
from engine import sched as S
from engine import build
from engine.common import CLEAN_ENV, VERIF, sh, run_fixed_schedule

META = {
    'level': 'model_checking',
    'technique': 'fork-point enumeration by preemption-bounded schedule exploration of the real code under the controlled scheduler; deadlock decided from the scheduler\'s mutex model in the child',
    'text': 'Every schedule with <=1 (quick) / <=2 (thorough) preemptions of {thread 0: fork, child execs; thread 1: K wrapped calls} is executed for each output type, child fork depth 1 and 2 and K in {1,2}: '
            'the child must reach the real exec (recorder) and exit normally, the parent must not deadlock, its records must be whole and its registry empty at the end.'
            " Also: children that become multithreaded, three- and four-thread parents, I/O-granular fork points, state-hashed campaigns without preemption bound, glibc's time-zone lock (tzset/localtime_r/strftime) modelled as a mutex held across a scheduling point, and sequential fork histories in which the application's own atfork child handler makes an exec call (handlers registered before the library's own - by an earlier constructor - or after them, with and without a nested fork from a prepare handler).",
    'note': 'The fork is taken at synchronisation points of the other thread (every lock/unlock/once of its call), which includes every window in which it holds the library mutex. '
            'Function-entry granularity is used in one campaign to place the fork inside lock-free stretches too.',
}

# every data source is evaluated (between the first four fields and the last two), every filter is consulted, stdin is a terminal:
# a lock introduced anywhere on the logging path is seen by the scheduler (pthread_mutex_* of snoopy's sources are renamed)
ALL = ('%{cgroup:name=systemd}%{cwd}%{datetime}%{domain}%{egid}%{egroup}%{env:A}%{env_all}%{euid}%{eusername}%{gid}%{group}%{hostname}%{ipaddr}%{login}%{pid}%{ppid}%{rpname}%{sid}'
       '%{snoopy_configure_command}%{snoopy_literal:x}%{snoopy_version}%{systemd_unit_name}%{tid}%{tid_kernel}%{timestamp}%{timestamp_ms}%{timestamp_us}%{tty}%{tty_uid}%{tty_username}%{uid}')
FMT = '%{filename}|%{cmdline}|%{snoopy_threads}|%{username}|%{snoopy_literal:Q}' + ALL.replace('|', '') + '%{snoopy_literal:Q}'
CHAIN = 'exclude_spawns_of:zz,yy;exclude_uid:5;only_root;only_tty;only_uid:0;noop'


def cfg_for(out):
    o = {'file': 'file:@W@/log', 'devlog': 'devlog', 'socket': 'socket:@W@/nosock', 'stdout': 'stdout', 'devnull': 'devnull'}[out]
    return '[snoopy]\nmessage_format = ' + FMT + '\nfilter_chain = ' + CHAIN + '\noutput = ' + o + '\n'


def judge(x, k, out, nthr=2, depth=1):
    bad = []
    if x.timed_out:
        return ['hang_nothing_runnable_in_the_process_tree' if getattr(x, 'hang', '') == 'hang' else 'timeout']
    if x.rc == 77:
        return ['parent_deadlock']
    if x.rc == 79:
        return ['livelock_horizon']
    if x.rc == 76:
        return ['mutex_reinitialised_while_locked']
    if x.rc == 78:
        return ['HARNESS:replay_divergence']
    if x.san:
        m = re.search(r'SUMMARY: \w+: ([^\n]*)', x.san[0])
        bad.append('sanitizer(%s)' % (re.sub(r'/verif/build/[^ ]*?/|/repo/', '', m.group(1))[:80] if m else ''))
    if x.rc != 0 and not bad:
        bad.append('abnormal_exit_%s' % x.rc)
    r = x.result
    if r is None:
        return bad or ['no_result']
    if not r['child_reached']:
        bad.append('child_not_reaped')
    elif r['child_status'] == 77:
        bad.append('child_deadlock_on_inherited_mutex')
    elif r['child_status'] == 76:
        bad.append('child_reinitialised_locked_mutex')
    elif r['child_status'] != 0:
        bad.append('child_failed_status_%d' % r['child_status'])
    if r['repo_count'] != 0 or not r['repo_first_null']:
        bad.append('parent_registry_not_empty')
    if r['mutex_trylock'] != 0:
        bad.append('parent_mutex_left_locked')
    if any(r['rec_calls'][t] != k for t in range(1, nthr)) or r['bad_ret']:
        bad.append('parent_exec_passthrough')
    if out == 'file':
        lines = [l for l in (x.log or b'').decode('latin-1').split('\n') if l]
        want = ['/t%d/prog%d|cmd arg-t%d-j%d T%dT%dT%d|' % (t, j, t, j, t, t, t) for t in range(1, nthr) for j in range(k)] + ['/child/prog|childcmd childarg|', '/lone|LONE|']
        nchild = 2 if depth == 11 else 1
        for w in want:
            if len([l for l in lines if l.startswith(w)]) != (nchild if w.startswith('/child/') else 1):
                bad.append('record_missing_or_duplicated(%s)' % w.split('|')[0])
        if len(lines) != len(want) + nchild - 1:
            bad.append('record_count_%d_expected_%d' % (len(lines), len(want)))
        for l in lines:
            # third field: %{snoopy_threads} - between 1 and the number of threads that can be inside the library at once
            if not re.match(r'^[^|]+\|[^|]+\|[1-%d]\|root\|Q[^|]*Q$' % max(2, nthr), l):
                bad.append('garbled_record')
        if x.log and not x.log.endswith(b'\n'):
            bad.append('partial_last_record')
    return bad


def run(ck):
    va = S.build_thr('c10-sched-asan', san='asan')
    vf = S.build_thr('c10-schedfn-asan', san='asan', fn=True)
    q = ck.tier == 'quick'
    plan = []
    for out in ('file', 'devlog', 'socket', 'stdout', 'devnull'):
        for depth in (1, 2):
            for k in (1, 2):
                if q and out != 'file' and (depth, k) != (1, 1):
                    continue
                plan.append(('%s-d%d-k%d' % (out, depth, k), va, False, out, depth, k, 1 if q else 2))
    plan.append(('fn-file-d1-k1', vf, True, 'file', 1, 1, 1))
    # two other threads inside the library at the moment of the fork (the child's copy of the registry holds two foreign entries)
    plan.append(('file-n3-d1-k1', va, False, 'file', 1, 1, 1, 3))
    plan.append(('devlog-n3-d1-k1', va, False, 'devlog', 1, 1, 1, 3))
    # the child becomes multithreaded itself and its NEW threads make the calls (depth code 11); also with the parent's other thread already
    # finished when the fork is taken (schedules in which thread 1 runs to completion first are part of every campaign)
    plan.append(('file-childthreads-k1', va, False, 'file', 11, 1, 1))
    plan.append(('devlog-childthreads-k1', va, False, 'devlog', 11, 1, 1))
    if not q:
        plan.append(('hashed-file-n3-d1-k1', va, False, 'file', 1, 1, 'hashed', 3))      # ~35 000 executions since the libc time-zone lock is modelled: thorough tier
    # snoopy's open/write/writev/close are scheduling points too: the fork is also taken while the other thread is between the
    # system calls of its output (whatever it holds there - a descriptor, a lock on it - is inherited by the child)
    vio = S.build_thr('c10-schedio-asan', san='asan', io=True)
    plan.append(('io-file-d1-k1', vio, False, 'file', 1, 1, 1))
    plan.append(('io-stdout-d1-k1', vio, False, 'stdout', 1, 1, 1))
    if not q:
        plan.append(('io-file-d2-k2', vio, False, 'file', 2, 2, 2))
        plan.append(('file-n4-d1-k1', va, False, 'file', 1, 1, 1, 4))
        plan.append(('file-n3-d1-k1-b2', va, False, 'file', 1, 1, 2, 3))
    # state-hashed: every interleaving of the forking thread with the other thread's call(s), no preemption bound
    plan.append(('hashed-file-d1-k1', va, False, 'file', 1, 1, 'hashed'))
    plan.append(('hashed-file-d2-k2', va, False, 'file', 2, 2, 'hashed'))
    plan.append(('hashed-devlog-d1-k1', va, False, 'devlog', 1, 1, 'hashed'))
    total = 0
    outcomes = set()
    camps = []
    fork_points = set()
    hashed_states = [0]
    diverged = [0]
    for pl in plan:
        name, v, fn, out, depth, k, bound = pl[:7]
        nthr = pl[7] if len(pl) > 7 else 2
        if ck.out_of_time():
            break
        tl = threading.local()
        cnt = [0]

        def runner(prefix, v=v, fn=fn, out=out, depth=depth, k=k, name=name, nthr=nthr):
            if not hasattr(tl, 'w') or tl.name != name:
                cnt[0] += 1
                tl.w = os.path.join(ck.workdir, '%s-w%d' % (name, cnt[0]))
                tl.name = name
            return S.run_one(v['h_thr'], tl.w, cfg_for(out), nthr, k, 'fork', prefix, san='asan', fn=fn, extra_args=[str(depth)], timeout=60, env_extra={'VS_STDIN_PTY': '1', 'A': 'a'})

        def check(x, k=k, out=out, name=name, bound=bound, depth=depth, nthr=nthr):
            bad = judge(x, k, out, nthr, depth)
            # where was the fork taken relative to thread 1's progress?
            t1 = 0
            for p in x.points:
                if p['t'] == 0 and p['op'] == 'fork' and p['c'] == 0 or (p['t'] == 0 and p['op'] == 'fork' and p['en'][p['c']] == 0):
                    fork_points.add((name, t1))
                    break
                if p['t'] == 1:
                    t1 += 1
            outcomes.add((name, tuple(sorted(set(bad))), x.result and x.result.get('child_status')))
            if bad:
                if any(b.startswith('HARNESS') for b in bad):
                    diverged[0] += 1      # a prefix that no longer replays: not a verdict, counted, run reported as not exhaustive
                    ck.capped = True
                    return
                # signature: property-level symptom + campaign family (not the schedule), so a different failure is still new
                ck.violation('C10:%s:%s' % ('+'.join(sorted(set(bad))), name),
                             {'campaign': name, 'output': out, 'child_fork_depth': depth, 'calls_of_other_thread': k, 'schedule_prefix': x.prefix, 'preemption_bound': bound, 'failed': bad,
                              'result': x.result, 'child_trace_tail': x.child_traces, 'sanitizer': x.san[:1], 'log': (x.log or b'').decode('latin-1')[:500],
                              'replay': 'VS_PREFIX=%s h_thr <ini> <res> %d %d fork %d' % (','.join(map(str, x.prefix)), nthr, k, depth)})
        t0 = time.time()
        if bound == 'hashed':
            n, complete, nst, ned = S.explore_hashed(runner, check, deadline=ck.deadline)
            hashed_states[0] += nst
        else:
            n, complete = S.explore(runner, bound, check, deadline=ck.deadline)
        total += n
        camps.append({'name': name, 'executions': n, 'preemption_bound': bound, 'bound_completed': complete, 'wall_s': round(time.time() - t0, 1)})
        if not complete:
            ck.capped = True
    # ---- sequential fork histories (no scheduler): the application's own pthread_atfork() child handler makes an exec call, registered before or
    # after the library's first call (i.e. before or after the library registered ITS handlers: child handlers run in registration order), in the
    # thread-safe and the non-thread-safe build, the forking process single-threaded or with a (parked) second thread; every child must return
    # from the handler's call and complete a further call of its own
    from engine import harness as H
    hist_n = 0
    for ts in (True, False):
        hv = H.build_exec_harness('c10-hist-%s-asan' % ('ts' if ts else 'nots'), ts=ts)
        cfg = H.hx(b'[snoopy]\nmessage_format = "M %{cmdline}"\noutput = file:log\n')
        call = 'call execve %s [h61+h62] [] -1 2' % H.hx(b'/x')
        # 'early:<list>' = the application's handlers registered by a constructor that runs BEFORE the library's own (the library registers its
        # handlers when it is loaded): only then does the application's child handler run before the library's child-side clean-up
        early = [['early:' + e] + rest for e in ('exec', 'fork', 'prefork,exec', 'exec,prefork', 'prefork,fork', 'prefork') for rest in ([], [call])]
        for order in [['atforkexec', call], [call, 'atforkexec'], ['atforkexec'], ['atforkexec', call, call], ['atforkfork', call], [call, 'atforkfork'], ['atforkfork'],
                      ['atforkprefork', 'atforkexec', call], ['atforkexec', 'atforkprefork', call], [call, 'atforkprefork', 'atforkexec'], ['atforkprefork', 'atforkfork', call]] + early + \
                     [['early:prefork', 'atforkexec'], ['early:exec', 'atforkprefork', call], ['early:prefork,exec', 'atforkprefork']]:
            env_extra = {'VS_EARLY_ATFORK': order[0][6:]} if order[0].startswith('early:') else None
            shown = [o.replace('early:', 'early:atfork').replace(',', '+atfork') if o.startswith('early:') else o for o in order]
            has_prefork = any('prefork' in o for o in order if not o.startswith('call'))
            has_caller = any(('exec' in o or 'atforkfork' in o or o.startswith('early:') and 'fork' in o.replace('prefork', '').split(':')[1]) for o in order if not o.startswith('call'))
            for depth in (1, 2):
                script = ['sinks pipe', 'lean 1', 'cfg ' + cfg] + [o for o in order if not o.startswith('early:')] + ['forkname ' + H.hx(b'kid')] * depth + [call, 'echo end']
                w = os.path.join(ck.workdir, 'forkhist-%d' % hist_n)
                hist_n += 1
                r = H.run_script(hv['h_exec'], w, '\n'.join(script), timeout=30, env_extra=env_extra)
                name = 'atfork_child_handler_execs:%s:%s:fork_depth=%d' % ('ts' if ts else 'nots', '>'.join('call' if o.startswith('call') else o for o in shown), depth)
                handler_calls = [l for l in r['lines'] if 'atfork_child_call' in l]
                ended = any(l.get('echo') == 'end' for l in r['lines'])
                total += 1
                outcomes.add((name, r['done'], len(handler_calls), ended))
                bad = []
                if not r['done'] or not ended:
                    bad.append('child_did_not_complete_its_exec_call')
                # (with a helper forked from the prepare handler the child handlers run in the helper, too: at least one call per forked child of the history)
                if has_caller and ((len(handler_calls) < depth if has_prefork else len(handler_calls) != depth) or any(h.get('reached_real_exec') != 1 for h in handler_calls)):
                    bad.append('handler_call_did_not_reach_real_exec_once')
                if r['san']:
                    bad.append('sanitizer')
                if bad:
                    ck.violation('C10:%s:%s' % ('+'.join(bad), name), {'script': script, 'rc': r['rc'], 'lines': r['lines'][-6:], 'stderr': r['stderr'][-300:], 'sanitizer': r['san'][:1]})
    # ---- the same family with a second thread parked inside the library (its log FIFO is full) while the forking thread's own atfork PREPARE handler -
    # registered before the library's first call, so it runs after the library's - spawns a helper with vfork()+execv(): the vfork child has another
    # pid but lives in the parent's memory; it must not do any child-side clean-up there.  Real shared library, preloaded.
    so = build.build_libsnoopy_so('c10-so', san='plain')
    vd = os.path.join(ck.workdir, 'vfh')
    shutil.rmtree(vd, ignore_errors=True)
    os.makedirs(vd)
    rcc = sh(['gcc', '-O1', '-pthread', '-o', os.path.join(vd, 'vfh'), os.path.join(VERIF, 'native/h_vfh.c')])
    if rcc.returncode:
        raise RuntimeError('h_vfh build failed: ' + rcc.stderr.decode()[:300])
    os.mkfifo(os.path.join(vd, 'fifo'))
    for nm, target in (('snoopy.ini', 'fifo'), ('later.ini', 'log')):
        open(os.path.join(vd, nm), 'w').write('[snoopy]\nmessage_format = "%%{tid_kernel} %%{cmdline}"\noutput = file:%s/%s\n' % (vd, target))
    def vfh_once():
        # the program renames later.ini over snoopy.ini: both are written afresh for every attempt
        for nm, target in (('snoopy.ini', 'fifo'), ('later.ini', 'log')):
            open(os.path.join(vd, nm), 'w').write('[snoopy]\nmessage_format = "%%{tid_kernel} %%{cmdline}"\noutput = file:%s/%s\n' % (vd, target))
    vfh_once()
    verdict_vfh, rv = 'not_reached', None
    for _ in range(3):
        vfh_once()
        verdict_vfh, rv = run_fixed_schedule([os.path.join(vd, 'vfh'), os.path.join(vd, 'fifo'), os.path.join(vd, 'snoopy.ini'), os.path.join(vd, 'later.ini')],
                                             dict(CLEAN_ENV, LD_PRELOAD=so['so'], VERIF_SNOOPY_INI=os.path.join(vd, 'snoopy.ini')), tries=1)
        if verdict_vfh == 'ok':
            break
    total += 1
    outcomes.add(('vfork_in_prepare_handler', verdict_vfh))
    if verdict_vfh == 'not_reached':
        ck.capped = True
        ck.assumptions.append('fixed schedule h_vfh could not be arranged on this (busy) machine in 3 attempts: not evaluated in this run')
    if verdict_vfh == 'violation':
        ck.violation('C10:parent_thread_inside_the_library_%s:application_prepare_handler_vforks_and_execs_while_another_thread_is_inside_a_call' % ('killed_by_signal_%d' % -rv.returncode if rv.returncode < 0 else 'exit_%d' % rv.returncode),
                     {'rc': rv.returncode, 'stdout': rv.stdout.decode()[-300:], 'stderr': rv.stderr.decode()[-300:]})
    # ---- the very first call into the library is made by a second thread AFTER the first thread's fork() has begun (glibc has taken its snapshot of the
    # registered handlers): handlers the library registered only during that first call would not run for this fork.  Fixed schedule (native/h_late.c:
    # the thread is parked inside the library's guarded time-zone region by an interposed tzset), real shared library; 'warm' is the control.
    ld = os.path.join(ck.workdir, 'late')
    shutil.rmtree(ld, ignore_errors=True)
    os.makedirs(ld)
    rcc = sh(['gcc', '-O0', '-g', '-pthread', '-rdynamic', '-o', os.path.join(ld, 'late'), os.path.join(VERIF, 'native/h_late.c'), '-ldl'])
    if rcc.returncode:
        raise RuntimeError('h_late build failed: ' + rcc.stderr.decode()[:300])
    open(os.path.join(ld, 'snoopy.ini'), 'w').write('[snoopy]\nmessage_format = "%%{datetime} %%{cmdline}"\noutput = "file:%s/log"\n' % ld)
    late_env = dict(CLEAN_ENV, LD_PRELOAD=so['so'], VERIF_SNOOPY_INI=os.path.join(ld, 'snoopy.ini'))
    warm_verdict, _rvw = run_fixed_schedule([os.path.join(ld, 'late'), 'warm'], late_env, setup=(1, 2))      # the control: anything but 0 means the machine is too busy for this schedule
    for mode in (('late',) if warm_verdict == 'ok' else ()):
        late_verdict, rv = run_fixed_schedule([os.path.join(ld, 'late'), mode], late_env, setup=(2,))
        total += 1
        outcomes.add(('first_call_after_fork_began', mode, late_verdict))
        if late_verdict == 'not_reached':
            warm_verdict = 'not_reached'
        if late_verdict == 'violation':
            ck.violation('C10:child_blocked_on_a_lock_of_the_library:first_call_into_the_library_made_after_the_fork_had_begun', {'rc': rv.returncode, 'stdout': rv.stdout.decode()[-300:], 'stderr': rv.stderr.decode()[-300:]})
    if warm_verdict != 'ok':
        ck.capped = True
        ck.assumptions.append('fixed schedule h_late could not be arranged on this (busy) machine: not evaluated in this run')
    ck.assumptions += ['fork points = scheduling points of the other thread (sync operations; function entries in the fn campaign)', 'sequentially consistent interleavings']
    ck.coverage(states=len(outcomes) + hashed_states[0], scheduler_states_in_hashed_passes=hashed_states[0], transitions=total, traces_validated_against_impl=total, evaluations=total, distinct_nontrivial=max(len(outcomes), len(fork_points)),
                rule='all schedules within the preemption bound per campaign (output x child depth x calls); distinct = max(distinct (campaign, verdict, child status), distinct fork positions relative to the other thread)',
                distinct_fork_positions=len(fork_points), unreproducible_hangs_replayed_ok=len(S.UNREPRODUCIBLE_HANGS), replay_divergences=diverged[0], campaigns=camps, samples=camps[:5] or [{'note': 'none'}])
