"""C04 - exactly one faithful record per logged exec, none when filtered.

Configuration x message x chain x error-logging x outcome product on the production wrapper; the
harness owns every candidate sink at once (log file, second file, stdout, stderr in pipe/file/socket
modes, controlling pty, datagram socket, redirected /dev/log) and snapshots them before the call,
at recorder entry and after return.  Every case is executed twice in a row in the same process.
"""
import os, struct, itertools
from engine import harness as H
from engine.common import pmap

META = {
    'level': 'model_checking',
    'technique': 'bounded exhaustive enumeration of output x sink kind x message size/bytes x chain x error-logging x outcome, all sinks observed at recorder entry, reference framing per output',
    'text': 'For every built-in output (file, templated file path, devnull, devtty, socket with path lengths up to the 107-byte limit, devlog with all 20x8 facility/level pairs and 4 idents, '
            'stdout and stderr on pipe / regular file / socket) and message sizes straddling stdio and pipe buffer boundaries, the configured sink must hold exactly the reference record '
            'at recorder entry, every other sink must be untouched, nothing may be emitted later, and dropped or empty messages leave all sinks untouched. Each case runs twice per process.'
            " Further states: the caller's stdio in use (unflushed text in stdout, wide-oriented stderr, sticky error indicators) and socket paths of 108/150 bytes with the sink listening at their 107-byte prefix (nothing may arrive there).",
    'note': 'Datagram sizes stop at 64 KiB (kernel limit is an environment matter); tty sizes stop at 2000 bytes (nobody reads the pty during the call). syslog output is not built by default and not in the statement.',
}

SINKS = ('log', 'log2', 'stdout', 'stderr', 'tty', 'sock', 'devlog')
FAC = {'AUTH': 4, 'AUTHPRIV': 10, 'CRON': 9, 'DAEMON': 3, 'FTP': 11, 'KERN': 0, 'LOCAL0': 16, 'LOCAL1': 17, 'LOCAL2': 18, 'LOCAL3': 19, 'LOCAL4': 20,
       'LOCAL5': 21, 'LOCAL6': 22, 'LOCAL7': 23, 'LPR': 6, 'MAIL': 2, 'NEWS': 7, 'SYSLOG': 5, 'USER': 1, 'UUCP': 8}
LVL = {'EMERG': 0, 'ALERT': 1, 'CRIT': 2, 'ERR': 3, 'WARNING': 4, 'NOTICE': 5, 'INFO': 6, 'DEBUG': 7}
BIN = bytes([b for b in range(1, 256)])


def mk_msg(n, kind):
    if kind == 'nl':          # ends in a line feed (and has one inside): the record terminator is still added
        return (b'line one\nline two ' * (n // 18 + 1))[:max(0, n - 1)] + b'\n'
    if kind == 'ascii':
        return (b'ABCDEFGHIJ' * (n // 10 + 1))[:n]
    return (BIN * (n // 255 + 1))[:n]


def dg_acc(recs):
    return b''.join(struct.pack('<I', len(r)) + r for r in recs)


def plan(tier):
    """list of process plans: dict(name, sinks=(so,se), sockbase, cases=[case])
    case = dict(cfg=bytes, M=bytes, sink, expect=fn(pid)->bytes (delta of that sink) or None, errlog, note)"""
    procs = []
    base_sizes = [1, 2, 100, 4094, 4095, 4096, 4097, 4098, 8191, 8192, 8193, 65536]
    if tier == 'quick':
        base_sizes = [1, 100, 4095, 4096, 4097, 8192, 65536]
    chains = [('none', b'', True), ('pass', b'filter_chain = only_root\n', True), ('drop', b'filter_chain = only_uid:12345\n', False)]
    outcomes = [(-1, 2), (0, 0)]

    def outputs():
        # name, output line, sink, stdout mode, stderr mode, sockbase, sizes, framing
        o = [('file', b'output = file:log\n', 'log', 'pipe', 'pipe', None, base_sizes + [1048575], 'line'),
             ('filetpl', b'output = file:lo%{snoopy_literal:g}2\n', 'log2', 'pipe', 'pipe', None, [1, 4096], 'line'),
             ('devnull', b'output = devnull\n', None, 'pipe', 'pipe', None, [1, 4096], 'none'),
             ('devtty', b'output = devtty\n', 'tty', 'pipe', 'pipe', None, [1, 2, 100, 2000], 'line'),
             ('devlog', b'output = devlog\n', 'devlog', 'pipe', 'pipe', None, base_sizes, 'syslog')]
        for mode in ('pipe', 'file', 'sock'):
            o.append(('stdout-' + mode, b'output = stdout\n', 'stdout', mode, 'pipe', None, base_sizes, 'line'))
            o.append(('stderr-' + mode, b'output = stderr\n', 'stderr', 'pipe', mode, None, base_sizes, 'line'))
        # the caller's streams are in use: stdout fully buffered with unflushed text of the program in it, stderr wide-oriented (fwprintf users)
        o.append(('stdout-pipe-callers-stdio-in-use', b'output = stdout\n', 'stdout', 'pipe', 'pipe', None, [1, 100, 4096], 'line'))
        o.append(('stderr-pipe-callers-stdio-in-use', b'output = stderr\n', 'stderr', 'pipe', 'pipe', None, [1, 100, 4096], 'line'))
        # ... or carry a sticky error indicator from an earlier failed write of the program (ENOSPC long ago); the descriptors are healthy
        o.append(('stdout-pipe-callers-stream-has-error-flag', b'output = stdout\n', 'stdout', 'pipe', 'pipe', None, [1, 100, 4096], 'line'))
        o.append(('stderr-pipe-callers-stream-has-error-flag', b'output = stderr\n', 'stderr', 'pipe', 'pipe', None, [1, 100, 4096], 'line'))
        return o
    for name, oline, sink, so, se, sb, sizes, framing in outputs():
        cases = []
        for n in sizes:
            for kind in ('ascii', 'bin', 'nl'):
                for cn, cl, passes in chains:
                    for oc in outcomes:
                        if tier == 'quick' and oc == (0, 0) and n not in (1, 4096):
                            continue
                        cases.append(dict(cfg=b'[snoopy]\nmessage_format = %{env:M}\ndatasource_message_max_length = 1048575\nlog_message_max_length = 1048575\n' + cl + oline,
                                          M=mk_msg(n, kind), sink=sink, framing=framing, logged=passes, main=mk_msg(n, kind), errlog=False, oc=oc,
                                          label='%s/n=%d/%s/chain=%s/oc=%s' % (name, n, kind, cn, oc)))
        # configured maximum: 299 / 300 fit, 301 does not (message stays empty -> no record)
        for n in (299, 300, 301):
            cases.append(dict(cfg=b'[snoopy]\nmessage_format = %{env:M}\ndatasource_message_max_length = 1048575\nlog_message_max_length = 300\n' + oline,
                              M=mk_msg(n, 'ascii'), sink=sink, framing=framing, logged=n <= 300, main=mk_msg(n, 'ascii'), errlog=False, oc=(-1, 2),
                              label='%s/logmax=300/n=%d' % (name, n)))
        # empty message
        cases.append(dict(cfg=b'[snoopy]\nmessage_format = %{noop}\n' + oline, M=b'x', sink=sink, framing=framing, logged=False, main=b'', errlog=False, oc=(-1, 2), label=name + '/empty'))
        # error logging off/on x error raised or not
        for el in (False, True):
            for raised in (False, True):
                for cn, cl, passes in chains:
                    fmt = b'X%{env:M}' if raised else b'%{env:M}'
                    M = mk_msg(255, 'ascii') if raised else b'hello'
                    cases.append(dict(cfg=b'[snoopy]\nerror_logging = ' + (b'yes' if el else b'no') + b'\nmessage_format = ' + fmt + b'\nlog_message_max_length = 255\n' + cl + oline,
                                      M=M, sink=sink, framing=framing, logged=passes, main=b'X' if raised else b'hello', errlog=el and raised, oc=(-1, 2),
                                      label='%s/errlog=%s/raised=%s/chain=%s' % (name, el, raised, cn)))
        procs.append(dict(name=name, sinks=(so, se), sockbase=sb, cases=cases, prelude=['stdiopending 1'] if name.endswith('callers-stdio-in-use') else ['stdiopending 2'] if name.endswith('has-error-flag') else []))
    # socket output: path lengths short / 106 / 107 (the sun_path limit); 108 and 150: the configured path cannot name any socket - no record anywhere,
    # in particular not at the socket that listens on its first 107 bytes (the harness's sink sits exactly there)
    for plen in ('short', 106, 107, '107+1', '107+43'):
        cases = []
        for n in ([1, 4096, 65536] if tier == 'quick' else base_sizes):
            for kind in ('ascii', 'bin', 'nl'):
                for cn, cl, passes in chains:
                    cases.append(dict(cfg=None, oline='socket', cl=cl, M=mk_msg(n, kind), sink='sock', framing='dgram', logged=passes and not isinstance(plen, str) or (passes and plen == 'short'), main=mk_msg(n, kind), errlog=False, oc=(-1, 2),
                                      label='socket-%s/n=%d/%s/chain=%s' % (plen, n, kind, cn)))
        procs.append(dict(name='socket-%s' % plen, sinks=('pipe', 'pipe'), sockbase=107 if isinstance(plen, str) and plen != 'short' else plen, cases=cases,
                          sock_suffix=b'x' * int(plen.split('+')[1]) if isinstance(plen, str) and '+' in plen else b''))
    # devlog: every facility x level x ident
    idents = [('default', None, b'snoopy'), ('1byte', b'i', b'i'), ('255', b'J' * 255, b'J' * 255), ('tpl', b'id-%{snoopy_literal:q}-%{env:IDV}', b'id-q-VAL'),
              # short templates whose expansion is long (the datagram buffer must be sized by the expansion, not by the template)
              ('tpl-long120', b'%{env:IDL120}', b'e' * 120), ('tpl-long250', b'x%{env:IDL250}', b'x' + b'f' * 250), ('tpl-cmdline', b'%{cmdline}', None)]
    facs = list(FAC.items()) if tier == 'thorough' else list(FAC.items())
    cases = []
    for (fk, fv), (lk, lv) in itertools.product(facs, LVL.items()):
        for ik, itext, iexp in (idents if tier == 'thorough' or (fk, lk) in (('AUTHPRIV', 'INFO'), ('LOCAL7', 'DEBUG'), ('KERN', 'EMERG')) else idents[:1]):
            if iexp is None:
                continue
            cfg = b'[snoopy]\nmessage_format = %{env:M}\noutput = devlog\nsyslog_facility = ' + fk.encode() + b'\nsyslog_level = ' + lk.encode() + b'\n'
            if itext is not None:
                cfg += b'syslog_ident = ' + itext + b'\n'
            cases.append(dict(cfg=cfg, M=b'msg body', sink='devlog', framing='syslog', logged=True, main=b'msg body', errlog=False, oc=(-1, 2), pri=fv * 8 | lv, ident=iexp,
                              label='devlog/%s.%s/ident=%s' % (fk, lk, ik)))
    procs.append(dict(name='devlog-prio', sinks=('pipe', 'pipe'), sockbase=None, cases=cases))
    return procs


def run_proc(args):
    h, pr, w = args
    lines = []
    sockpath = None
    if pr['sockbase'] is not None:
        if pr['sockbase'] == 'short':
            base = 'sock'
        else:
            base = 's' * (pr['sockbase'] - len(w) - 1)
        lines.append('sockbase ' + base)
        sockpath = (w + '/' + base).encode()
        assert pr['sockbase'] == 'short' or len(sockpath) == pr['sockbase']
    lines += ['sinks %s %s' % pr['sinks']] + pr.get('prelude', []) + ['errno -1', 'setenv %s %s' % (H.hx(b'IDV'), H.hx(b'VAL')), 'setenv %s %s' % (H.hx(b'IDL120'), H.hx(b'e' * 120)), 'setenv %s %s' % (H.hx(b'IDL250'), H.hx(b'f' * 250))]
    for c in pr['cases']:
        cfg = c['cfg']
        if cfg is None:
            cfg = b'[snoopy]\nmessage_format = %{env:M}\ndatasource_message_max_length = 1048575\nlog_message_max_length = 1048575\n' + c['cl'] + b'output = socket:' + sockpath + pr.get('sock_suffix', b'') + b'\n'
        lines += ['resetsinks', 'cfg ' + H.hx(cfg), 'setenv %s %s' % (H.hx(b'M'), H.hx(c['M']))]
        call = 'call execve %s %s [] %d %d' % (H.hx(b'/bin/prog'), H.vec([H.hx(b'prog'), H.hx(b'arg')]), c['oc'][0], c['oc'][1])
        lines += [call, call, 'poke', 'snap']
    return H.run_script(h, w, '\n'.join(lines), env_extra={'VERIF_HEXMAX': '4096'}, timeout=900)


def frame(c, pid):
    """the bytes the configured sink must gain for ONE logged call"""
    f = c['framing']
    if f == 'line':
        return c['main'] + b'\n'
    if f == 'dgram':
        return dg_acc([c['main']])
    if f == 'syslog':
        return dg_acc([b'<%d>%s[%d]: %s' % (c.get('pri', 10 * 8 | 6), c.get('ident', b'snoopy'), pid, c['main'])])
    return b''


def judge_case(c, calls, snap):
    """calls: 2 call records.  returns list of failure strings"""
    bad = []
    acc = {s: b'' for s in SINKS}    # expected cumulative content since resetsinks (exact part)
    for k, j in enumerate(calls):
        pid = j['pid']
        if j['rec_calls'] != 1 or j['ret'] != j['want_ret'] or j['errno'] != j['want_errno']:
            bad.append('call%d:exec_passthrough' % k)
        exp_gain = frame(c, pid) if (c['logged'] and c['main'] and c['sink']) else b''
        for s in SINKS:
            want_entry = acc[s] + (exp_gain if s == c['sink'] else b'')
            for phase in ('before', 'at_entry', 'after'):
                want = acc[s] if phase == 'before' else want_entry
                got = j[phase][s]
                if c['errlog'] and s == c['sink'] and phase != 'before':
                    # error records may precede/follow: need hex
                    gb = H.sink_bytes(got)
                    if gb is None or not (gb.startswith(acc[s]) and exp_gain in gb[len(acc[s]):]):
                        bad.append('call%d:%s:%s:main_record_missing_with_error_logging' % (k, phase, s))
                    continue
                if not H.sink_is(got, want):
                    kind = 'configured_sink' if s == c['sink'] else 'other_sink'
                    if phase == 'at_entry':
                        why = 'not_at_sink_before_exec' if got['len'] < len(want) else 'wrong_or_extra_bytes_at_entry'
                    elif phase == 'after':
                        why = 'changed_after_exec_started' if H.sink_is(j['at_entry'][s], want) else 'wrong_after'
                    else:
                        why = 'before_mismatch'
                    bad.append('call%d:%s:%s:%s' % (k, kind, s, why))
            if c['errlog'] and s == c['sink']:
                gb = H.sink_bytes(j['after'][s])
                acc[s] = gb if gb is not None else want_entry
            else:
                acc[s] = want_entry
    # after the poke: what the exec'ed image writes to fd 1/2 must land AFTER the records
    if snap is not None:
        for s, mark in (('stdout', b'<O>'), ('stderr', b'<E>')):
            if not c['errlog'] and not H.sink_is(snap['now'][s], acc[s] + mark):
                bad.append('poke:%s:record_lost_or_overwritten_by_later_write' % s)
    return bad


def run(ck):
    v = H.build_exec_harness('c04-ts-asan')
    procs = plan(ck.tier)
    jobs = [(v['h_exec'], pr, os.path.join(ck.workdir, 'p%02d' % i)) for i, pr in enumerate(procs)]
    # the same plan on the non-thread-safe build (--disable-thread-safety)
    vn = H.build_exec_harness('c04-nots-asan', ts=False)
    jobs += [(vn['h_exec'], dict(pr, name='nots:' + pr['name']), os.path.join(ck.workdir, 'n%02d' % i)) for i, pr in enumerate(procs)]
    res = pmap(run_proc, jobs)
    evals = 0
    outcomes = set()
    samples = []
    for (h, pr, w), r in zip(jobs, res):
        calls = [l for l in r['lines'] if 'call' in l]
        snaps = [l for l in r['lines'] if 'snap' in l]
        ncomplete = min(len(calls) // 2, len(snaps))
        if not r['done']:
            c = pr['cases'][ncomplete] if ncomplete < len(pr['cases']) else {'label': '?'}
            ck.violation('C04:abort:%s' % c['label'], {'process': pr['name'], 'case': c['label'], 'rc': r['rc'], 'sanitizer': r['san'][:1], 'stderr': r['stderr'][-500:], 'timed_out': r['timed_out']})
        for i in range(ncomplete):
            c = pr['cases'][i]
            evals += 2
            bad = judge_case(c, calls[2 * i:2 * i + 2], snaps[i])
            outcomes.add((pr['name'], c['logged'], bool(c['main']), c['errlog'], tuple(sorted(set(b.split(':', 1)[1] for b in bad)))))
            if bad:
                sig = sorted(set(b.split(':', 1)[1] if b.startswith('call') else b for b in bad))
                ck.violation('C04:%s:%s' % (';'.join(sig)[:160], c['label']), {'process': pr['name'], 'case': c['label'], 'failed': bad[:12],
                             'config': (c['cfg'] or b'(socket config)').decode('latin-1')[:400], 'message_len': len(c['M'])})
            if len(samples) < 5 and evals % 331 == 2:
                samples.append({'case': c['label'], 'logged': c['logged'], 'ok': not bad})
    ck.assumptions += ['a datagram above the kernel limit cannot be delivered by any implementation: sizes stop at 64 KiB',
                       'nobody reads the pty during the call: devtty sizes stop at 2000 bytes']
    ck.coverage(states=len(outcomes), transitions=evals, traces_validated_against_impl=evals, evaluations=evals, distinct_nontrivial=len(outcomes),
                rule='product of output/sink-kind x size x byte class x chain x error logging x outcome, each case two consecutive calls; distinct = (output, logged?, empty?, errlog?, failure set)',
                processes=len(procs), cases=sum(len(p['cases']) for p in procs), samples=samples or [{'note': 'none'}])
