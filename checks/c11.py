"""C11 - each call sees only the current configuration, nothing carried over.

Explicit-state search over histories of (configuration, call) steps (engine E5) in the thread-safe
and the non-thread-safe build: every letter is executed from every reachable library state; what
is emitted, and where, must equal what the same letter emits as the first step of a fresh process
(differential oracle); ASan watches for double frees; a heap-tracking build checks that no step
retains heap (long cyclic sequences).
"""
import os, re, itertools
from engine import harness as H, hist
from engine.common import pmap

META = {
    'level': 'model_checking',
    'technique': 'explicit-state BFS over (configuration, call) histories with real-state hashing, differential oracle against a fresh process; both builds; heap accounting over cyclic sequences',
    'text': 'Alphabet: ~35 configuration letters (absent, empty, directory, garbage, one per option with a non-default value, every output, dropping/passing chain, error logging with a raising format, '
            'both limits at 255, all options at once, an invalid value per option, duplicate keys) x 2 exec letters. BFS over histories de-duplicated on the digest of every writable library symbol; '
            'all ordered pairs in addition. Every step\'s emission at every sink must equal the fresh-process emission of that letter. Live heap retained per step must be zero (heap-tracking build, sequences of 2x the alphabet).'
            " Also: calls made by vfork children whose exec succeeds, the syslog output (harness stand-in with libc's static state), and a first letter 'abandoned_midway' (a call left by siglongjmp while blocked on its output).",
    'note': 'When the state set closes the statement holds for histories of any length over the alphabet. libc-internal state is outside the digest (guarded by the all-pairs pass).',
}

SINKS = ('log', 'log2', 'stdout', 'stderr', 'tty', 'sock', 'devlog')
LONGARG = b'L' * 3000


def config_letters():
    c = {
        'absent': None, 'empty': b'', 'dir': 'DIR', 'garbage': bytes(range(1, 256)) + b'\n[snoopy\nx\n',
        'sectiononly': b'[snoopy]\n',
        # a damaged file: sound lines that set only NON-string options, plus a line the parser rejects (it applies the sound lines and reports an error)
        'damaged_nonstring': b'[snoopy]\nerror_logging = yes\nsyslog_facility = LOCAL4\nsyslog_level = DEBUG\ndatasource_message_max_length = 300\nlog_message_max_length = 256\nthis line has no separator\n',
        'mf': b'[snoopy]\nmessage_format = F:%{filename}\n',
        'fc_drop': b'[snoopy]\nfilter_chain = only_uid:12345\n',
        'fc_pass': b'[snoopy]\nfilter_chain = only_root\n',
        'out_file': b'[snoopy]\noutput = file:log\n', 'out_file2': b'[snoopy]\noutput = file:log2\n', 'out_stdout': b'[snoopy]\noutput = stdout\n', 'out_stderr': b'[snoopy]\noutput = stderr\n',
        'out_sock': b'[snoopy]\noutput = socket:sock\n', 'out_devnull': b'[snoopy]\noutput = devnull\n', 'out_devtty': b'[snoopy]\noutput = devtty\n', 'out_devlog': b'[snoopy]\noutput = devlog\n',
        'out_stdout_emptyarg': b'[snoopy]\noutput = stdout:\n', 'out_devlog_emptyarg': b'[snoopy]\noutput = devlog:\n', 'out_file_emptyarg': b'[snoopy]\noutput = file:\n',
        # syslog(3) output (a build option; the harness stands in for libc's openlog/syslog/closelog, static state included)
        'out_syslog': b'[snoopy]\noutput = syslog\n', 'out_syslog_local3': b'[snoopy]\noutput = syslog\nsyslog_facility = LOCAL3\nsyslog_ident = hist\nsyslog_level = ERR\n',
        'out_syslog_emptyident': b'[snoopy]\noutput = syslog\nsyslog_facility = LOCAL5\nsyslog_ident = ""\n',
        'out_filetpl': b'[snoopy]\noutput = file:lo%{snoopy_literal:g}2\n',
        'errlog': b'[snoopy]\nerror_logging = yes\nlog_message_max_length = 255\nmessage_format = X%{cmdline}\noutput = file:log\n',
        'errlog_only': b'[snoopy]\nerror_logging = yes\n',
        'fac': b'[snoopy]\nsyslog_facility = LOCAL3\n', 'lvl': b'[snoopy]\nsyslog_level = DEBUG\n', 'ident': b'[snoopy]\nsyslog_ident = id-%{username}\n',
        'dsmax': b'[snoopy]\ndatasource_message_max_length = 255\noutput = file:log\n', 'logmax': b'[snoopy]\nlog_message_max_length = 300\noutput = file:log\n',
        'maxmax': b'[snoopy]\ndatasource_message_max_length = 1048575\nlog_message_max_length = 1048575\noutput = file:log\n',
        'all': b'[snoopy]\nerror_logging = yes\nmessage_format = A:%{cmdline}\nfilter_chain = only_root\noutput = file:log2\nsyslog_facility = LOCAL5\nsyslog_level = ERR\nsyslog_ident = zz\n'
               b'datasource_message_max_length = 400\nlog_message_max_length = 500\n',
        'inv_out': b'[snoopy]\noutput = nosuch:arg\n', 'inv_fac': b'[snoopy]\nsyslog_facility = abc\n', 'inv_lvl': b'[snoopy]\nsyslog_level = a\n', 'inv_ds': b'[snoopy]\ndatasource_message_max_length = 0\n',
        'inv_log': b'[snoopy]\nlog_message_max_length = asdf\n', 'inv_err': b'[snoopy]\nerror_logging = x\n',
        'dup_mf': b'[snoopy]\nmessage_format = one\nmessage_format = two %{filename}\n', 'dup_out': b'[snoopy]\noutput = file:log2\noutput = stdout\n',
        'dup_out2': b'[snoopy]\noutput = stdout\noutput = file:log2\noutput = file:log\n', 'dup_all': b'[snoopy]\nfilter_chain = only_uid:5\nfilter_chain = only_root\nsyslog_ident = a\nsyslog_ident = b\nerror_logging = yes\nerror_logging = no\n',
        'cont': b'[snoopy]\nmessage_format = first\n  continued\noutput = file:log\n',
    }
    return c


def letters(tier):
    L = {}
    execs = {'s': 'call execve %s %s [] -1 2' % (H.hx(b'/bin/p'), H.vec([H.hx(b'p'), H.hx(b'a')])),
             'l': 'call execv %s %s N -1 2' % (H.hx(b'/bin/q'), H.vec([H.hx(b'q'), H.hx(LONGARG)]))}
    for cn, c in config_letters().items():
        for en, e in execs.items():
            if c is None:
                cl = 'cfgnone'
            elif c == 'DIR':
                cl = 'cfgdir'
            else:
                cl = 'cfg ' + H.hx(c)
            L['%s/%s' % (cn, en)] = ['resetsinks', cl, e]
            # the same call made by a vfork() child whose exec SUCCEEDS (it never returns; the parent goes on in the memory the child leaves behind)
            if en == 's' and cn in ('mf', 'errlog', 'all', 'dsmax', 'logmax', 'out_file2', 'fac', 'ident', 'fc_drop', 'out_stdout', 'absent'):
                L['%s/v' % cn] = ['resetsinks', cl, 'v' + e.replace(' -1 2', ' 0 0')]
    return L


def emission(call, w):
    """canonical (sink -> digest) of what this step emitted; process-specific values (work dir, pid, session id, pty number) normalised"""
    out = {}
    for s in SINKS:
        a = call['after'][s]
        if a['len'] == 0:
            continue
        b = H.sink_bytes(a)
        if b is None:
            raise RuntimeError('emission too large for hexmax')
        def nz(x):
            x = x.replace(w.encode(), b'@W@')
            x = re.sub(rb'\[\d+\]: ', b'[PID]: ', x)
            x = re.sub(rb'sid:\d+', b'sid:N', x)
            return re.sub(rb'/dev/pts/\d+', b'/dev/pts/N', x)
        if s in ('sock', 'devlog'):
            b = b'\x00DGRAM\x00'.join(nz(d) for d in H.dgrams(a))     # datagram boundaries kept, length prefixes (pid-dependent) dropped
        else:
            b = nz(b)
        out[s] = H.fnv(b) + ':%d' % len(b)
        if 'at_entry' in call and call['at_entry'][s]['fnv'] != a['fnv']:      # (a vfork child that execs successfully leaves no snapshot at entry)
            out[s] += ':late'
    return tuple(sorted(out.items()))


def run(ck):
    total_states = total_trans = 0
    outcomes = set()
    samples = []
    closed_all = True
    L = letters(ck.tier)
    for vname, ts in (('ts', True), ('nots', False)):
        v = H.build_exec_harness('c11-%s-asan' % vname, ts=ts, syslog_output=True)
        symfile = os.path.join(v['dir'], 'syms.txt')
        H.write_syms(v, v['h_exec'], symfile)
        ex = hist.Explorer(v['h_exec'], symfile, os.path.join(ck.workdir, vname), ['sinks pipe', 'errno -1'], L, warmup=['cfgnone', 'call execve h2f77 [h77] [] -1 2'])
        # reference: each letter as the very first wrapped call of a fresh process (no warm-up call before it)
        fresh = {}
        for a, r0 in zip(L, pmap(lambda a: ex.run_history([a], warm=False), list(L))):
            c0 = r0['steps'][-1][0]
            if c0 is not None and r0['ok']:
                fresh[a] = emission(c0, r0['workdir'])

        def on_step(h, a, call, r, vname=vname, fresh=fresh):
            if call is None or not r['ok']:
                ck.violation('C11:abort:%s:hist=%s' % (vname, '>'.join(h + [a])), {'build': vname, 'history': h + [a], 'sanitizer': r['raw']['san'][:1], 'rc': r['raw']['rc'], 'stderr': r['raw']['stderr'][-400:]})
                return
            em = emission(call, r['workdir'])
            outcomes.add((vname, a, em))
            bad = []
            if a in fresh and em != fresh[a]:
                bad.append('emission_differs_from_fresh_process')
            if call['rec_calls'] != 1 or (call['ret'], call['errno']) != ((-1, 2) if not a.endswith('/v') else (0, call['errno'])):
                bad.append('exec_passthrough')
            if bad:
                f = dict(fresh.get(a, ()))
                e = dict(em)
                sinks = sorted(set(k for k in set(f) | set(e) if f.get(k) != e.get(k)))
                ck.violation('C11:%s:%s:letter=%s:after=%s:sinks=%s' % ('+'.join(bad), vname, a, h[-1] if h else '-', ','.join(sinks)),
                             {'build': vname, 'history': h + [a], 'failed': bad, 'emission': em, 'fresh_process_emission': fresh.get(a), 'differing_sinks': sinks})
            if len(samples) < 4 and len(outcomes) % 53 == 7:
                samples.append({'build': vname, 'history': h + [a], 'emission': [list(x) for x in em]})
        res = ex.bfs(3 if ck.tier == 'quick' else 4, on_step, deadline=ck.deadline, max_states=60)
        total_states += res['states']
        total_trans += res['transitions']
        closed_all &= res['closed']
        # guard pass: ordered pairs (first letters: those that set something non-default, quick: one exec letter)
        names = list(L)
        # quick: first letters = every configuration with the short call, plus the long call under the configurations that raise errors / hit limits
        # quick: first letters = every vfork letter, the short call under every configuration that sets or breaks something, and the long call
        # under the configurations that raise errors / hit limits (thorough: every letter first)
        setting = ('damaged_nonstring', 'mf', 'fc_drop', 'out_file2', 'out_stdout', 'out_stderr', 'out_sock', 'out_devtty', 'out_filetpl', 'errlog', 'errlog_only', 'fac', 'lvl', 'ident', 'dsmax', 'logmax', 'maxmax', 'all',
                   'inv_out', 'inv_fac', 'inv_ds', 'dup_out', 'dup_out2', 'dup_all', 'cont', 'garbage', 'dir', 'out_syslog', 'out_syslog_local3', 'out_syslog_emptyident', 'out_devlog', 'out_file', 'out_stdout_emptyarg', 'out_file_emptyarg')
        firsts = [n for n in names if n.endswith('/v') or (n.endswith('/s') and n.split('/')[0] in setting) or n.split('/')[0] in ('logmax', 'dsmax', 'errlog', 'all', 'garbage', 'inv_out', 'dup_out')] if ck.tier == 'quick' else names
        pairs = [(a, b) for a in firsts for b in names]
        for pr, r in zip(pairs, pmap(lambda p: ex.run_history(list(p)), pairs)):
            total_trans += 1
            on_step([pr[0]], pr[1], r['steps'][-1][0], r)
        # a call ABANDONED half way (blocked on its output, the program's timeout handler longjmps out of it; equally: a vfork child killed inside the
        # wrapper) comes first, once or twice; whatever it was configured with, the next call is a call like any other
        stale = (b'[snoopy]\nmessage_format = STALE-FORMAT %{filename}\nfilter_chain = only_root\nerror_logging = yes\nsyslog_ident = staleident\nsyslog_facility = LOCAL6\nsyslog_level = DEBUG\n'
                 b'datasource_message_max_length = 300\nlog_message_max_length = 400\noutput = file:stuck\n')
        L2 = dict(L)
        L2['abandoned_midway'] = ['resetsinks', 'fillfifo ' + H.hx(b'stuck'), 'cfg ' + H.hx(stale), 'abandon']
        ex2 = hist.Explorer(v['h_exec'], symfile, os.path.join(ck.workdir, vname + '-abandoned'), ['sinks pipe', 'errno -1'], L2, warmup=['cfgnone', 'call execve h2f77 [h77] [] -1 2'])
        followers = [n for n in names if not n.endswith('/v')] if ck.tier == 'thorough' else [n for n in names if n.endswith('/s')]
        hists = [['abandoned_midway', b] for b in followers] + [['abandoned_midway', 'abandoned_midway', b] for b in followers[:12]]
        for hh, r in zip(hists, pmap(lambda p: ex2.run_history(list(p)), hists)):
            total_trans += 1
            ab = [c for c, _ in r['steps'][:-1] if c is not None]
            if len(ab) != len(hh) - 1 or any(c.get('call') != 'abandoned' or c.get('returned_normally') for c in ab):
                if r['ok']:
                    raise RuntimeError('the abandoned call was not abandoned: %r' % (ab,))
            on_step(hh[:-1], hh[-1], r['steps'][-1][0], r)
        # state report (information)
        if res['states'] > 2:
            ks = list(res['seen'])
            ck.cov.setdefault('reachable_state_differences', {})[vname] = [hist.diff(ks[0], k) for k in ks[1:4]]
    # ---- heap growth over long cyclic sequences (heap-tracking build, no sanitizer)
    grow = heap_phase(ck, L)
    if not closed_all:
        ck.capped = True
    ck.assumptions += ['libc-internal state outside the digest; all ordered pairs executed as a guard', 'heap accounting counts malloc/calloc/realloc/free of the whole process during the call window (libc-internal caches settle during the warm-up pass)']
    ck.coverage(states=total_states, transitions=total_trans + grow, traces_validated_against_impl=total_trans + grow, evaluations=total_trans + grow, distinct_nontrivial=len(outcomes), state_set_closed=closed_all,
                rule='BFS over histories of the letter alphabet per build, de-duplicated on the real-state digest, plus ordered pairs, plus heap-accounted cyclic sequences; distinct = (build, letter, emission)',
                letters=len(L), heap_accounted_calls=grow, samples=samples or [{'note': 'none'}])


def heap_phase(ck, L):
    n = 0
    for vname, ts in (('ts', True), ('nots', False)):
        v = H.build_exec_harness('c11-%s-heap' % vname, ts=ts, san='plain', heaptrack=True)
        names = list(L)
        # warm-up: every letter once; then two more rounds with accounting
        lines = ['sinks pipe', 'noentry']
        seq = names + names + names
        for i, a in enumerate(seq):
            if i == len(names):
                lines.append('digest afterwarm')
            lines += L[a]
        lines.append('digest end')
        r = H.run_script(v['h_exec'], os.path.join(ck.workdir, 'heap-' + vname), '\n'.join(lines), env_extra={'VERIF_HEXMAX': '0'}, timeout=300)
        calls = [l for l in r['lines'] if 'call' in l]
        if not r['done']:
            ck.violation('C11:heap_run_abort:%s' % vname, {'rc': r['rc'], 'stderr': r['stderr'][-400:]})
        dg = {l['digest']: l for l in r['lines'] if 'digest' in l and 'call' not in l}
        if 'afterwarm' in dg and 'end' in dg:
            for k in ('fds', 'env', 'cwd', 'umask', 'sigmask', 'sigact'):
                if dg['afterwarm'].get(k) != dg['end'].get(k):
                    ck.violation('C11:growth_or_residue_over_sequence:%s:%s' % (vname, k), {'build': vname, 'attribute': k, 'after_warm_up_round': dg['afterwarm'].get(k), 'after_two_more_rounds': dg['end'].get(k)})
        for a, c in list(zip(seq, calls))[len(names):]:
            n += 1
            if c.get('heap_delta_live', 0) != 0:
                ck.violation('C11:heap_retained:%s:letter=%s:blocks=%d' % (vname, a, c['heap_delta_live']), {'build': vname, 'letter': a, 'blocks_retained_by_one_call': c['heap_delta_live'], 'bytes': c.get('heap_delta_bytes'),
                             'config': (config_letters()[a.split('/')[0]] or b'').decode('latin-1') if not isinstance(config_letters()[a.split('/')[0]], str) else 'DIR'})
    return n
