"""C15 - exclude_spawns_of drops exactly descendants of listed programs.

Process-chain x list enumeration on real processes: every chain of depth <= 3 (quick) / <= 4 (thorough) over 9
generated kernel names (spaces, parentheses, 15-byte names, names that are prefixes of each other) is built below
the harness with prctl(PR_SET_NAME); at the bottom every list of <= 2 (quick) / <= 3 items over a 13-item alphabet, and
lists of 50 with the match first / middle / last / duplicated, is put to the filter.  The oracle reads the
ancestors from /proc/<pid>/status (a different file and parser) up to pid 1, so the harness's own
ancestors are included truthfully.  Unreadable tree (tmpfs over /proc in a private mount namespace) => pass.
"""
import os, itertools
from engine import harness as H, build
from engine.common import pmap, sh, VERIF

META = {
    'level': 'model_checking',
    'technique': 'exhaustive enumeration of real ancestor chains x name lists against an independent /proc/<pid>/status oracle',
    'text': 'All chains up to the depth bound over 9 special names (and depth 8/12 chains with the match at every position) x all lists up to the length bound (plus 50-item lists) are executed with real processes; '
            'drop iff some ancestor (parent or higher, never the process itself, pid 1 included) has a name equal to a non-empty list item; with /proc hidden every list passes.'
            ' Also: fabricated /proc trees with 7-digit pids, chains and callers inside PID namespaces that kept the outer /proc, ambient errno rotation.',
    'note': 'The bottom process carries a listed name itself in half of the cases (self must not count).',
}
NATIVE = os.path.join(VERIF, 'native')
NAMES = [b'', b'a', b'a b', b'(x)', b'x)', b')(', b'fifteen_bytes_n', b'cron', b'cro', b'crond', b'l\nf', b' lead', b'trail ', b'a) S 1 \n', b'irq/9-a']
ITEMS = NAMES + [b'', b'sixteen_bytes_nam', b'n' * 40, b'a) S 1 (b', b'pool/a', b'/usr/sbin/cron', b'9-a', b'irq/']


def run(ck):
    v = H.build_exec_harness('c15-ts-asan')
    h = build.link_harness(v, os.path.join(v['dir'], 'h_chain'), [os.path.join(NATIVE, 'h_chain.c'), os.path.join(NATIVE, 'seam.c')])
    q = ck.tier == 'quick'
    lists = [[a] for a in ITEMS] + [[a, b] for a in ITEMS for b in ITEMS]
    if not q:
        lists += [list(c) for c in itertools.product(ITEMS[:9], repeat=3)]
    # duplicates before / after the matching item, and repeated matching items
    for m in NAMES:
        for d in (b'zz', b'a', m):
            lists += [[d, d, m], [m, d, d], [d, m, d], [d, d, d, m]]
    fill = [b'f%02d' % i for i in range(49)]
    for m in (b'cron', b'a b', b'(x)'):
        lists += [[m] + fill, fill[:25] + [m] + fill[25:], fill + [m], fill[:20] + [m, m] + fill[20:48], fill + [b'zz']]
    # the top process of this sandbox and the harness's own interpreter are ancestors too: list them explicitly
    lists += [[b'python3'], [b'python'], [b'ython3'], [b'python3x']]
    try:
        top = open('/proc/1/comm').read().strip().encode()
        lists += [[top], [top[:-1]], [top + b'x']]
    except Exception:
        pass
    lf = os.path.join(ck.workdir, 'lists.txt')
    with open(lf, 'w') as f:
        for L in lists:
            f.write(b','.join(L).hex() + '\n')
    chains = [()]
    for d in range(1, (3 if q else 4) + 1):
        chains += list(itertools.product(NAMES, repeat=d))
    for depth in (8, 12):
        for pos in range(depth):
            chains.append(tuple(b'cron' if i == pos else b'n%d' % i for i in range(depth)))
    jobs = []
    for i, c in enumerate(chains):
        selfname = NAMES[i % len(NAMES)] if i % 2 == 0 else b'selfproc'
        jobs.append((c, selfname, 0))
    for c in ((), (b'cron',), (b'a', b'cron')):
        jobs.append((c, b'cron', 1))
    # PID namespaces that kept the outer /proc: the whole chain inside one (3) / only the caller, as its pid 1 (4)
    for d in (1, 2, 3):
        for c in itertools.product([b'a', b'cron', b'(x)', b'a b'], repeat=d):
            for selfname in (b'selfproc', b'cron'):
                jobs.append((c, selfname, 3))
                jobs.append((c, selfname, 4))

    # fabricated /proc (hide == 2): ancestries with process ids of up to 7 digits (stat lines no process of this sandbox can have)
    FN = [b'a', b'fifteen_bytes_n', b'cron', b'(x)', b'', b'crond', b'irq/9-a']
    PIDPAT = {'small': (7, 42, 1), 'seven_digits': (4194301, 1000001, 1), 'mixed': (99999, 100000, 1), 'max': (4194303, 4194302, 4194301)}
    for depth in (1, 2, 3):
        for c in itertools.product(FN, repeat=depth):
            if depth == 3 and (c[0] not in (b'fifteen_bytes_n', b'a') or c[1] not in (b'fifteen_bytes_n', b'cron')):
                continue
            for pn, pp in PIDPAT.items():
                jobs.append((c, b'selfproc', (2, pn, pp)))

    def one(j):
        c, selfname, hide = j
        if isinstance(hide, tuple):
            _, pn, pp = hide
            w = os.path.join(ck.workdir, 'f%d' % (hash(j) % 64))
            os.makedirs(w, exist_ok=True)
            spec = ','.join('%s:%d' % (n.hex(), pp[i] if i < len(pp) else 1) for i, n in enumerate(c))
            return sh([h, lf, '2', selfname.hex() or '-'], env=dict(H.san_env(w), VERIF_FAKEPROC=spec), cwd=w, timeout=300)
        w = os.path.join(ck.workdir, 'w%d' % (hash(j) % 64))
        os.makedirs(w, exist_ok=True)
        r = sh([h, lf, str(hide), selfname.hex() or '-'] + [n.hex() for n in c], env=H.san_env(w), cwd=w, timeout=300)
        return r
    evals = 0
    outcomes = set()
    samples = []
    for j, r in zip(jobs, pmap(one, jobs)):
        c, selfname, hide = j
        out = r.stdout.decode('latin-1')
        done = [l for l in out.splitlines() if l.startswith('DONE')]
        tag = ('chain=%s:self=%s:hideproc=%d' % ('/'.join(x.decode() for x in c), selfname.decode(), hide) if hide < 3 else 'chain=%s:self=%s:%s' % ('/'.join(x.decode() for x in c), selfname.decode(), 'chain_in_pidns_under_outer_proc' if hide == 3 else 'caller_is_pid1_of_pidns_under_outer_proc')) if not isinstance(hide, tuple) else 'fabricated_proc:pids=%s:chain=%s' % (hide[1], '/'.join(x.decode('latin-1') for x in c))
        if not done or r.returncode != 0:
            ck.violation('C15:abort:%s' % tag, {'rc': r.returncode, 'stdout': out[-400:], 'stderr': r.stderr.decode('latin-1')[-400:]})
            continue
        n = int(done[0].split('lists=')[1].split()[0])
        nbad = int(done[0].split('mismatches=')[1].split()[0])
        if nbad and not any(l.startswith('MISMATCH') for l in out.splitlines()):
            ck.violation('C15:mismatches_%d:%s' % (nbad, tag), {'chain': [x.decode() for x in c], 'stdout': out[-300:]})
        evals += n
        outcomes.add((tag, done[0]))
        for l in out.splitlines():
            if l.startswith('MISMATCH') and 'got=' in l and 'list=' in l:
                ck.violation('C15:%s:%s' % (l.split('got=')[1].replace(' ', '_'), tag) + ':' + l.split('list=')[1].split(' got=')[0][:60],
                             {'chain': [x.decode('latin-1') for x in c], 'own_name': selfname.decode(), 'proc_hidden': hide if not isinstance(hide, tuple) else 'fabricated %s' % (hide[2],), 'line': l, 'ancestors': [a for a in out.splitlines() if a.startswith('ANC')][:1]})
        if len(samples) < 4 and len(outcomes) % 211 == 5:
            samples.append({'chain': [x.decode() for x in c], 'own_name': selfname.decode(), 'lists': n})
    ck.coverage(states=len(outcomes), transitions=evals, traces_validated_against_impl=evals, evaluations=evals, distinct_nontrivial=len(outcomes), chains=len(jobs), lists_per_chain=len(lists),
                rule='(chain, own name, /proc hidden?) x every list; oracle from /proc/<pid>/status; distinct = distinct (chain, result summary)', samples=samples or [{'note': 'none'}])
