"""C08 - configuration file is parsed to the documented values with safe fallbacks.

Grammar enumeration against a reference parser (engine/refini.py, written from etc/snoopy.ini.in and
the statement): every single-line file over per-option value alphabets x syntax styles x file
wrappers, all two-line files over a reduced alphabet (duplicates, interactions), number sweeps
with every suffix, monotonicity along sorted numbers, and the `snoopyctl conf` round trip.
Observed through the library's real init path and the same option API `snoopyctl conf` prints.
"""
import os, re, itertools, subprocess
from engine import harness as H, build, refini
from engine.common import pmap, sh, VERIF, CLEAN_ENV

META = {
    'level': 'model_checking',
    'technique': 'exhaustive enumeration of configuration files from an INI/value grammar against a reference parser; conf round trip; real snoopyctl binding',
    'text': 'All files of the bounded grammar (<=2 option lines over per-option value alphabets x 5 syntax styles x 10 file wrappers; numbers 0..3000 and all 2^k/10^k +-1 up to 10^15 with every suffix) '
            'are loaded through the real init path (inih + option parsers) and every option value is compared with a reference parser; length values must be monotone in the number; '
            'the values printed in `snoopyctl conf` format are fed back and must reproduce themselves; the real snoopyctl binary (dlopen of a libsnoopy.so built from the tree) is compared on all distinct value sets.'
            " Also: zero-padded numbers, the documentation's own example lines, sections whose names are near misses of 'snoopy', a locale with other case rules, a build with error logging on by default.",
    'note': 'Where the statement is silent (continuation lines, garbage after a number, invalid value after a valid one) the reference marks the option loose and it is not compared. '
            'Reference parser is the trusted oracle (engine/refini.py).',
}

NATIVE = os.path.join(VERIF, 'native')


def known_outputs(repo):
    src = open(os.path.join(repo, 'src/outputregistry.c')).read()
    m = re.search(r'snoopy_outputregistry_names\s*\[\]\s*=\s*\{(.*?)\};', src, re.S)
    names = set(n.encode() for n in re.findall(r'^\s*"([a-z_0-9]+)",', m.group(1), re.M))
    names.discard(b'syslog')      # not enabled in the verified build configuration
    return names


def case3(n):
    return {n.lower(), n.upper(), n[:1].upper() + n[1:].lower()}


def value_alphabets(outs, tier):
    strings = [b'plain', b'with inner  spaces', b'"q"', b"'q'", b'""q""', b"''q''", b'" lead trail "', b"' x '", b'a#b', b'a:b=c', b'x ;c', b'x;y', b'', b'"', b"'", b'"unbal',
               b'%{cmdline}', b"\"'%{cmdline}'\"", b'\'"x"\'', b'"it\'s"', b'only_uid:0;exclude_uid:1',
               # quotes of different kinds at the two ends are not a pair
               b'"q\'', b'\'q"', b'"%{username}" ran \'%{cmdline}\'', b'\'a" "b\'', b'"\'', b'\'"',
               # values whose parsed form starts with / contains a comment character (only reachable through quotes)
               b'";abc"', b'"#abc"', b'"a ;b"', b'"a #b"', b'"; "', b"';'", b'"a;b"', b'"[x]"', b'"k = v"', b'"k: v"',
               # values whose parsed form is exactly one quote or blank character
               b'"""', b"'''", b'\'"\'', b'"\'"', b'" "', b'"\t"', b"' '"]
    bools = [bytes([c]) for c in b'yYtT1nNfF0'] + [b'x', b'', b'yes', b'no', b'maybe', b'2', b'TRUE', b'off', b'on']
    fac, lvl = [], []
    for n in refini.FACILITIES:
        for c in case3(n):
            fac += [c, b'LOG_' + c, b'log_' + c]
    for n in refini.LEVELS:
        for c in case3(n):
            lvl += [c, b'LOG_' + c, b'log_' + c]
    near = [b'AUT', b'AUTHX', b'LOG_', b'LOG', b'a', b'ab', b'abc', b'', b'FOO_USER', b'XYZ_INFO', b'LOG_LOG_USER', b'LOG_LOG_INFO', b'7', b'LOCAL8', b'LOG-USER', b'USER INFO', b'_', b'___', b'ERROR', b'WARN', b'INFORMATION']
    outv = []
    for o in sorted(outs):
        outv += [o, o + b':arg', o + b':a:b', o + b':', o.upper()]
    outv += [b'\'file:/x"', b'"stdout\'', b'"file:/y"', b'nosuch', b'nosuch:arg', b':', b':file', b'::', b':file:/x', b'', b'file:/var/log/x-%{datetime:%Y-%m-%d}', b'fil', b'files']
    nums = []
    for suf in (b'', b'k', b'K', b'm', b'M'):
        for n in (0, 1, 7, 254, 255, 256, 1023, 1024, 1025, 2047, 2048, 1048575, 1048576, 1048577, 2147483647, 2147483648, 4294967295, 4294967296, 4294967297, 99999999999999999999):
            nums.append(b'%d' % n + suf)
    nums += [b'7x', b'7 k', b'k', b'-1', b'+300', b'-7k', b' 300', b'3e3', b'0x100', b'1.5k', b'', b'12kk', b'12mk', b'007', b'0300', b'300 ', b'"300"', b'" 300"',
             # signed input: never a value, never undefined behaviour
             b'-9999999999999999k', b'-99999999999999m', b'-9223372036854775808', b'-9223372036854775809k', b'-0', b'-300', b'+9999999999999999k', b'--5', b'-k']
    return {b'message_format': strings, b'filter_chain': strings, b'syslog_ident': strings, b'error_logging': bools,
            b'syslog_facility': fac + near, b'syslog_level': lvl + near, b'output': outv,
            b'datasource_message_max_length': nums, b'log_message_max_length': nums}


def reduced(alpha):
    r = {}
    pick = {b'message_format': [b'plain', b'"q"', b'" lead trail "', b'x ;c', b''], b'filter_chain': [b'only_uid:0;exclude_uid:1', b''], b'syslog_ident': [b'plain', b"'q'"],
            b'error_logging': [b'y', b'N', b'x'], b'syslog_facility': [b'LOG_LOCAL3', b'user', b'abc', b'FOO_USER'], b'syslog_level': [b'debug', b'LOG_ERR', b'a'],
            b'output': [b'file:/a.log', b'stdout', b'file', b'nosuch', b'socket:/s:x'], b'datasource_message_max_length': [b'300', b'1k', b'0', b'asdf'],
            b'log_message_max_length': [b'255', b'2m', b'7x']}
    return pick


STYLES = [lambda n, v: n + b' = ' + v, lambda n, v: n + b'=' + v, lambda n, v: n + b' : ' + v, lambda n, v: n + b'\t=\t' + v + b'  ', lambda n, v: n + b' = ' + v + b' ; trailing comment',
          lambda n, v: n.upper() + b' = ' + v, lambda n, v: n + b':' + v + b'\t;c', lambda n, v: n + b'  =' + v]


def wrappers():
    return {
        'plain': lambda L: b'[snoopy]\n' + b''.join(l + b'\n' for l in L),
        'bom': lambda L: b'\xef\xbb\xbf[snoopy]\n' + b''.join(l + b'\n' for l in L),
        'other_before': lambda L: b'[other]\nmessage_format = wrong\noutput = stdout\n[snoopy]\n' + b''.join(l + b'\n' for l in L),
        'other_after': lambda L: b'[snoopy]\n' + b''.join(l + b'\n' for l in L) + b'[other]\noutput = stdout\nerror_logging = yes\nlog_message_max_length = 999\n',
        'nosection': lambda L: b''.join(l + b'\n' for l in L),
        'comments': lambda L: b'; c\n[snoopy]\n# c\n' + b''.join(l + b'\n;' + l + b'\n#' + l + b'\n' for l in L),
        'crlf': lambda L: b'[snoopy]\r\n' + b''.join(l + b'\r\n' for l in L),
        'unknownkey': lambda L: b'[snoopy]\nnosuch_option = 1\n' + b''.join(l + b'\nmessage_formatx = zz\n' for l in L),
        'junkline': lambda L: b'[snoopy]\n' + b''.join(l + b'\njunk line without separator\n' for l in L),
        'nofinalnl': lambda L: (b'[snoopy]\n' + b'\n'.join(L)),
        'section_comment': lambda L: b'[snoopy] ; the section\n\n\n' + b''.join(l + b'\n\n' for l in L),
        'continuation': lambda L: b'[snoopy]\n' + b''.join(l + b'\n   continued text\n' for l in L),
        # sections whose names are near misses of "snoopy" (longer, shorter, other case, blanks inside the brackets) hold other values for everything
        'nearmiss_sections_after': lambda L: b'[snoopy]\n' + b''.join(l + b'\n' for l in L) + b'[snoopy-old]\noutput = stdout\nerror_logging = yes\nlog_message_max_length = 999\n[snoopy2]\nmessage_format = wrong3\n'
                                             b'[snoop]\nsyslog_level = DEBUG\n[Snoopy]\nsyslog_facility = LOCAL7\n[ snoopy ]\nfilter_chain = only_uid:7\n[snoopy ]\nsyslog_ident = wrongident\ndatasource_message_max_length = 777\n',
        'nearmiss_sections_before': lambda L: b'[snoopy.disabled]\nmessage_format = wrong4\noutput = stderr\nerror_logging = yes\n[snoopyx]\nsyslog_level = EMERG\n[snoopy]\n' + b''.join(l + b'\n' for l in L),
        'section_twice': lambda L: b'[snoopy]\n' + L[0] + b'\n[other]\nmessage_format = wrong2\noutput = stderr\n[snoopy]\n' + b''.join(l + b'\n' for l in L[1:]),
        'leading_blanks': lambda L: b'[snoopy]\n \t' + L[0] + b'\n' + (b'[snoopy]\n  ' + b'\n[snoopy]\n  '.join(L[1:]) + b'\n' if len(L) > 1 else b''),
        'upper_section': lambda L: b'[SNOOPY]\n' + b''.join(l + b'\n' for l in L),
        'spaced_section': lambda L: b'[ snoopy ]\n' + b''.join(l + b'\n' for l in L),
        'blank_lines_and_tabs': lambda L: b'\n\n\t\n[snoopy]\t\n\n' + b''.join(l + b'\n\n \n' for l in L),
    }


def gen_files(outs, tier):
    alpha = value_alphabets(outs, tier)
    W = wrappers()
    files = []
    # (1) single option line: full alphabets x styles x wrappers
    for name, vals in alpha.items():
        for v in vals:
            for si, st in enumerate(STYLES):
                for wn, w in W.items():
                    if tier == 'quick' and si > 1 and wn not in ('plain', 'crlf'):
                        continue
                    files.append(('1:%s:%s:s%d:%s' % (name.decode(), v[:30].decode('latin-1'), si, wn), w([st(name, v)])))
    # (2) two option lines over the reduced alphabet (includes duplicates of the same option, both orders)
    red = reduced(alpha)
    lines = [(n, v) for n, vs in red.items() for v in vs]
    for (n1, v1), (n2, v2) in itertools.product(lines, repeat=2):
        for wn in (('plain', 'other_after', 'junkline', 'nearmiss_sections_after') if tier == 'quick' else W):
            files.append(('2:%s=%s|%s=%s:%s' % (n1.decode(), v1.decode('latin-1'), n2.decode(), v2.decode('latin-1'), wn), W[wn]([STYLES[0](n1, v1), STYLES[1](n2, v2)])))
    if tier == 'thorough':
        small = [(n, vs[0]) for n, vs in red.items()] + [(b'output', b'stdout'), (b'output', b'nosuch'), (b'syslog_level', b'a'), (b'log_message_max_length', b'0')]
        for a, b, c in itertools.product(small, repeat=3):
            files.append(('3:%s|%s|%s' % (a, b, c), W['plain']([STYLES[0](*a), STYLES[1](*b), STYLES[2](*c)])))
    # (3) long lines around the 1023-byte limit
    for L in (1000, 1021, 1022, 1023, 1024, 1025, 3000):
        v = b'v' * (L - len(b'message_format = '))
        files.append(('long:%d' % L, b'[snoopy]\nmessage_format = ' + v + b'\noutput = stdout\n'))
    files.append(('absent', None))
    files.append(('empty', b''))
    files.append(('garbage', bytes(range(1, 256)) * 4))
    return files


def gen_numbers(tier):
    ns = set(range(0, 3001))
    for k in range(0, 51):
        for d in (-1, 0, 1):
            ns.add(max(0, 2 ** k + d))
    for k in range(0, 16):
        for d in (-1, 0, 1):
            ns.add(max(0, 10 ** k + d))
    return sorted(ns)


def run_conf(h_conf, w, contents, timeout=600, state=None):
    """contents: list of bytes or None; returns list of dict name->bytes (None for a case that did not complete)"""
    os.makedirs(w, exist_ok=True)
    inp = '\n'.join('-' if c is None else c.hex() for c in contents) + '\n'
    env = H.san_env(w)
    env.update(state or {})
    r = sh([h_conf, w], input=inp.encode(), env=env, timeout=timeout)
    out = []
    for l in r.stdout.decode().splitlines():
        d = {}
        for kv in l.strip(';').split(';'):
            k, _, v = kv.partition('=')
            d[k.encode()] = bytes.fromhex(v)
        out.append(d)
    reports = [open(os.path.join(w, f), errors='replace').read()[:2500] for f in os.listdir(w) if f.startswith(('asan.', 'ubsan.'))]
    for f in os.listdir(w):
        if f.startswith(('asan.', 'ubsan.')):
            os.unlink(os.path.join(w, f))
    return out, r.returncode, reports


def run_resilient(h_conf, w, contents, state=None):
    res, aborts, pos = [], [], 0
    while pos < len(contents) and len(aborts) < 40:
        out, rc, reports = run_conf(h_conf, w, contents[pos:], state=state)
        res += out
        pos += len(out)
        if pos < len(contents):
            aborts.append((pos, rc, reports))
            res.append(None)
            pos += 1
    return res, aborts


def conf_text(vals):
    return b'[snoopy]\n' + b''.join(k + b' = ' + vals[k] + b'\n' for k in refini.ORDER if k in vals)


def run(ck):
    v = H.build_exec_harness('c08-ts-asan')
    h_conf = build.link_harness(v, os.path.join(v['dir'], 'h_conf'), [os.path.join(NATIVE, 'h_conf.c'), os.path.join(NATIVE, 'seam.c'), os.path.join(NATIVE, 'nonreentrant.c')])
    outs = known_outputs(v['repo'])
    files = gen_files(outs, ck.tier)
    nums = gen_numbers(ck.tier)
    numfiles = []
    for opt in (b'datasource_message_max_length', b'log_message_max_length'):
        for suf in (b'', b'k', b'K', b'm', b'M'):
            for n in nums:
                numfiles.append((opt, suf, n, b'[snoopy]\n' + opt + b' = %d' % n + suf + b'\n'))
            # the same number written with leading zeros (digits are digits): few, many, more than any fixed digit buffer holds
            for n in (1, 256, 300, 1023, 4000, 1048575):
                for z in (1, 5, 15, 16, 17, 18, 19, 40):
                    numfiles.append((opt, suf + b'/zeros%d' % z, n, b'[snoopy]\n' + opt + b' = ' + b'0' * z + b'%d' % n + suf + b'\n'))
    allc = [c for _, c in files] + [c for _, _, _, c in numfiles]
    nchunk = 32
    size = (len(allc) + nchunk - 1) // nchunk
    chunks = [allc[i:i + size] for i in range(0, len(allc), size)]
    results = pmap(lambda a: run_resilient(h_conf, os.path.join(ck.workdir, 'c%d' % a[0]), a[1]), list(enumerate(chunks)))
    got = []
    for ci, (res, aborts) in enumerate(results):
        base = ci * size
        for pos, rc, reports in aborts:
            idx = base + pos
            label = files[idx][0] if idx < len(files) else 'num:%s' % (numfiles[idx - len(files)][:3],)
            ck.violation('C08:abort:%s' % label[:120], {'file': (allc[idx] or b'').decode('latin-1')[:600], 'rc': rc, 'sanitizer': reports[:1]})
        if len(res) < len(chunks[ci]):
            ck.capped = True
            res += [None] * (len(chunks[ci]) - len(res))
        got += res
    evals = 0
    outcomes = set()
    samples = []
    distinct_valuesets = {}
    n_loose = 0
    for (label, content), g in zip(files, got[:len(files)]):
        evals += 1
        if g is None:
            continue
        exp, loose = refini.parse(content or b'', outs)
        n_loose += len(loose)
        bad = [k.decode() + ':got=' + g.get(k, b'?')[:40].decode('latin-1') + ':want=' + exp[k][:40].decode('latin-1') for k in exp if k not in loose and g.get(k) != exp[k]]
        outcomes.add(tuple(sorted(g.items())))
        distinct_valuesets.setdefault(tuple(sorted(g.items())), content)
        if bad:
            opts = sorted(set(b.split(':')[0] for b in bad))
            ck.violation('C08:value:%s:%s' % ('+'.join(opts), label[:110]), {'file': (content or b'').decode('latin-1')[:700], 'mismatches': bad[:6]})
        if len(samples) < 5 and evals % 1999 == 11:
            samples.append({'file': (content or b'').decode('latin-1')[:200], 'values': {k.decode(): val.decode('latin-1')[:40] for k, val in g.items()}})
    # numbers: exact value + monotone
    series = {}
    for (opt, suf, n, content), g in zip(numfiles, got[len(files):]):
        evals += 1
        if g is None:
            continue
        exp, loose = refini.parse(content, outs)
        if g.get(opt) != exp[opt]:
            ck.violation('C08:number:%s:%s%d%s' % (opt.decode(), ('0' * int(suf.split(b'/zeros')[1])) if b'/zeros' in suf else '', n, suf.split(b'/')[0].decode()), {'file': content.decode(), 'got': g.get(opt, b'?').decode(), 'want': exp[opt].decode()})
        if b'/zeros' in suf:
            continue
        series.setdefault((opt, suf), []).append((n, int(g.get(opt, b'0'))))      # 0 included: "never decreasing as the number grows" starts at the smallest number
        outcomes.add((opt, g.get(opt)))
    for (opt, suf), pts in series.items():
        pts.sort()
        shown = 0
        for (n1, v1), (n2, v2) in zip(pts, pts[1:]):
            if v2 < v1 and shown < 3:
                shown += 1
                ck.violation('C08:not_monotone:%s:%d%s->%d%s' % (opt.decode(), n1, suf.decode(), n2, suf.decode()), {'option': opt.decode(), 'n1': n1, 'v1': v1, 'n2': n2, 'v2': v2})
    # another build: error logging ON by default (./configure --enable-error-logging) - an unparsable value keeps THAT default
    ve = H.build_exec_harness('c08-errlogon-asan', cfg_def=['SNOOPY_CONF_ERROR_LOGGING_ENABLED 1'])
    h_conf_e = build.link_harness(ve, os.path.join(ve['dir'], 'h_conf'), [os.path.join(NATIVE, 'h_conf.c'), os.path.join(NATIVE, 'seam.c'), os.path.join(NATIVE, 'nonreentrant.c')])
    efiles = [(label, c) for (label, c) in files if b'error_logging' in (c or b'') or label in ('absent', 'empty', 'garbage')]
    eres, eaborts = run_resilient(h_conf_e, os.path.join(ck.workdir, 'errlogon'), [c for _, c in efiles])
    for pos, rc, reports in eaborts:
        ck.violation('C08:abort:build=error_logging_default_on', {'file': (efiles[pos][1] or b'').decode('latin-1')[:400] if pos < len(efiles) else None, 'rc': rc, 'sanitizer': reports[:1]})
    for (label, content), g in zip(efiles, eres):
        if g is None:
            continue
        evals += 1
        exp, loose = refini.parse(content or b'', outs, defaults={b'error_logging': b'yes'})
        outcomes.add(('errlog_default_on', g.get(b'error_logging')))
        if b'error_logging' not in loose and g.get(b'error_logging') != exp[b'error_logging']:
            ck.violation('C08:value:error_logging:build=error_logging_default_on:%s' % label[:90], {'file': (content or b'').decode('latin-1')[:500], 'got': g.get(b'error_logging', b'?').decode(), 'want': exp[b'error_logging'].decode()})
    # caller states: the parsed values must not depend on the ambient errno or on descriptor 0 being closed when the call is made
    # (differential: same file, plain state - which was compared with the reference above)
    plain = {}
    for c, g in zip(allc, got):
        if g is not None:
            plain.setdefault(c, g)
    if ck.tier == 'thorough':
        sub = list(plain)
    else:
        keep = set(c for (label, c) in files if label.startswith(('1:', 'long', 'absent', 'empty', 'garbage')) and (label.endswith(':s0:plain') or not label.startswith('1:')))
        keep |= set(c for (label, c) in files if label.startswith('2:') and label.endswith(':plain'))
        edge = set(n for n in nums if n < 40 or 250 <= n <= 260 or 1020 <= n <= 1030 or 2040 <= n <= 2050 or n > 3000)
        keep |= set(c for (opt, suf, n, c) in numfiles if n in edge)
        sub = [c for c in plain if c in keep]
    STATES = {'errno=ERANGE': {'VERIF_CONF_ERRNO': '34'}, 'errno=EINTR': {'VERIF_CONF_ERRNO': '4'}, 'errno=ENOENT': {'VERIF_CONF_ERRNO': '2'}, 'fd0_closed': {'VERIF_CONF_CLOSE0': '1'}}
    from engine import locale8
    loc = locale8.build_turkish_rules_locale(os.path.join(ck.workdir, 'locale'))
    if loc:
        STATES['locale_with_turkish_case_rules'] = {'LOCPATH': loc[0], 'VERIF_CONF_LOCALE': loc[1]}
    else:
        ck.assumptions.append('localedef could not build the Turkish-rules locale: that caller state was not exercised')
    sjobs = []
    for sn, senv in STATES.items():
        k = max(1, (len(sub) + 7) // 8)
        for i in range(0, len(sub), k):
            sjobs.append((sn, senv, sub[i:i + k], len(sjobs)))
    n_state = 0
    for (sn, senv, part, ji), (res, aborts) in zip(sjobs, pmap(lambda a: run_resilient(h_conf, os.path.join(ck.workdir, 'st%d' % a[3]), a[2], state=a[1]), sjobs)):
        for pos, rc, reports in aborts:
            ck.violation('C08:abort:state=%s' % sn, {'state': sn, 'file': (part[pos] or b'').decode('latin-1')[:600] if pos < len(part) else None, 'rc': rc, 'sanitizer': reports[:1]})
        for c, g in zip(part, res):
            if g is None:
                continue
            n_state += 1
            diff = sorted(k.decode() for k in plain[c] if g.get(k) != plain[c][k])
            outcomes.add(('state', sn, tuple(diff)))
            if diff:
                ck.violation('C08:value_depends_on_caller_state:%s:%s' % (sn, '+'.join(diff)), {'state': sn, 'file': (c or b'').decode('latin-1')[:500], 'options': diff,
                             'plain': {k: plain[c][k.encode()].decode('latin-1')[:60] for k in diff}, 'in_state': {k: g.get(k.encode(), b'?').decode('latin-1')[:60] for k in diff}})
    evals += n_state
    # round trip through the REAL CLI: what `snoopyctl conf` prints for the file, written back into a config file, yields the same setting
    vsets = list(distinct_valuesets)
    # ---- the example lines of the shipped documentation (etc/snoopy.ini.in, "; - option = value   # explanation"), pasted into a file as they stand:
    # the option must take the value the example shows (what stands in front of the explanation, quotes stripped)
    doc = open(os.path.join(v['repo'], 'etc/snoopy.ini.in'), 'rb').read()
    examples = re.findall(rb'^;\s+-\s+([a-z_]+\s*=\s*\S.*?)\s*$', doc, re.M)
    ex_cases = []
    for e in examples:
        m = re.match(rb'^([a-z_]+)\s*=\s*(.*?)(?:\s+[#;]\s.*)?$', e)
        if not m or m.group(1) not in refini.ORDER:
            continue
        val = m.group(2).strip()
        if len(val) >= 2 and val[:1] == val[-1:] == b'"':
            val = val[1:-1]
        ex_cases.append((m.group(1), val, b'[snoopy]\n' + e + b'\n'))
    res, aborts = run_resilient(h_conf, os.path.join(ck.workdir, 'docex'), [c for _, _, c in ex_cases])
    for (opt, val, content), g in zip(ex_cases, res):
        evals += 1
        if g is None:
            ck.violation('C08:abort:documented_example:%s' % content.decode('latin-1')[9:80], {'file': content.decode('latin-1')})
            continue
        outcomes.add(('docex', opt, g.get(opt)))
        if g.get(opt) != val:
            ck.violation('C08:documented_example_line_gives_another_value:%s' % content.decode('latin-1')[9:70].strip(), {'file': content.decode('latin-1'), 'option': opt.decode(), 'got': g.get(opt, b'?').decode('latin-1'), 'documented': val.decode('latin-1')})
    n_rt, n_cli = cli_roundtrip(ck, h_conf, vsets, distinct_valuesets, outs)
    ck.assumptions += ['reference parser engine/refini.py is the oracle; options it marks loose (continuation lines, garbage after digits, invalid after valid) are not compared: %d' % n_loose]
    ck.coverage(states=len(outcomes), transitions=evals + n_rt + n_cli, traces_validated_against_impl=evals + n_rt + n_cli, evaluations=evals + n_rt + n_cli, distinct_nontrivial=len(outcomes),
                rule='all files of the bounded grammar + number sweeps; distinct = distinct resulting option-value sets', files=len(files), number_files=len(numfiles), caller_state_runs=n_state,
                roundtrips=n_rt, snoopyctl_runs=n_cli, samples=samples or [{'note': 'none'}])


def cli_roundtrip(ck, h_conf, vsets, origin, outs):
    so = build.build_libsnoopy_so('c08-so', san='plain')
    cli = build.build_cli('c08-cli', san='plain')
    todo = vsets if ck.tier == 'thorough' else vsets[:600]

    def one(a):
        i, vs = a
        w = os.path.join(ck.workdir, 'cli%d' % (i % 64))
        os.makedirs(w, exist_ok=True)
        ini = os.path.join(w, 'snoopy-%d.ini' % i)
        content = origin[vs]
        if content is None:
            if os.path.exists(ini):
                os.unlink(ini)
        else:
            open(ini, 'wb').write(content)
        env = dict(CLEAN_ENV, SNOOPY_TEST_LIBSNOOPY_SO_PATH=so['so'], VERIF_SNOOPY_INI=ini)
        r = sh([cli, 'conf'], env=env)
        if content is not None:
            os.unlink(ini)
        return r
    shown = pmap(one, list(enumerate(todo)))
    texts = []
    n_cli = 0
    for vs, r in zip(todo, shown):
        n_cli += 1
        d = dict(vs)
        if r.returncode != 0 or b'[snoopy]' not in r.stdout:
            ck.violation('C08:snoopyctl_conf_failed', {'rc': r.returncode, 'stdout': r.stdout.decode('latin-1')[:400], 'stderr': r.stderr.decode('latin-1')[:300]})
            texts.append(None)
            continue
        # every option must be shown, exactly once, in a `name = ...` line
        body = r.stdout[r.stdout.index(b'[snoopy]'):]
        names = [l.split(b' = ', 1)[0] for l in body.split(b'\n')[1:] if b' = ' in l or l.endswith(b' =')]
        if sorted(names) != sorted(d):
            ck.violation('C08:snoopyctl_conf_option_list', {'shown': [n.decode() for n in names], 'stdout': r.stdout.decode('latin-1')[:600]})
        texts.append(r.stdout)
    idx = [i for i, t in enumerate(texts) if t is not None]
    res, aborts = run_resilient(h_conf, os.path.join(ck.workdir, 'rt'), [texts[i] for i in idx])
    for pos, rc, reports in aborts:
        ck.violation('C08:roundtrip:abort', {'file': texts[idx[pos]].decode('latin-1')[:600], 'sanitizer': reports[:1]})
    n_rt = 0
    for i, g in zip(idx, res):
        if g is None:
            continue
        n_rt += 1
        d = dict(todo[i])
        diff = [k.decode() for k in d if g.get(k) != d[k]]
        if diff:
            k = diff[0].encode()
            ck.violation('C08:roundtrip:%s:setting=%r' % ('+'.join(diff), d[k][:40]), {'snoopyctl_conf_output_fed_back': texts[i].decode('latin-1')[:800], 'changed_options': diff,
                         'setting': d[k].decode('latin-1'), 'after_roundtrip': g.get(k, b'?').decode('latin-1'), 'original_file': (origin[todo[i]] or b'').decode('latin-1')[:400]})
    return n_rt, n_cli
