"""C14 - UID filters decide by exact membership of the real uid.

Real uid x list enumeration against set membership: for 11 real uids (0, small, around 2^16, 2^31, 2^32-2; the
effective uid always differs) every ordered list with repetition of <= 3 (quick) / <= 4 (thorough) items over a
per-uid alphabet of near misses (uid, uid+-1, every proper prefix and suffix of its decimal text, 0-prefixed and
0-suffixed text, the other ten uids), plus lists of 10/50/200 items with the uid at every position or absent, through
the three filter functions; and all lists of <= 2 items through the whole path (configuration file -> wrapper -> logged or not).
"""
import os, itertools
from engine import harness as H, build
from engine.common import pmap, sh, VERIF

META = {
    'level': 'model_checking',
    'technique': 'exhaustive enumeration of (real uid, uid list) pairs against plain set membership; filter functions directly and the whole logging path',
    'text': 'For each of 11 real uids assumed for real (setresuid, effective uid different) all ordered lists up to the length bound over ~30 near-miss items and long lists with the uid at every position '
            'are evaluated by only_uid, exclude_uid and only_root: only_uid passes iff member, exclude_uid iff not, they never agree, only_root iff uid 0. Lists of <= 2 items also run through config file -> wrapper -> sink.'
            ' Also: a user database in which every numeric list item is also a login name, and a build axis in which long has 32 bits (atol/strtol saturate as on ILP32).',
    'note': 'Malformed lists are C02\'s business. Reference = integer equality on strtoull of each item.',
}
NATIVE = os.path.join(VERIF, 'native')
UIDS = [0, 1, 999, 1000, 1001, 65534, 65535, 65536, 2 ** 31 - 1, 2 ** 31, 2 ** 32 - 2]


def alphabet(u):
    t = str(u)
    items = [t, str(u + 1)] + ([str(u - 1)] if u > 0 else [])
    items += [t[:i] for i in range(1, len(t))] + [t[i:] for i in range(1, len(t))]
    items += ['0' + t, t + '0', t + '1', '00' + t]
    items += [str(x) for x in UIDS if x != u]
    seen, out = set(), []
    for i in items:
        if i not in seen and i != '':
            seen.add(i)
            out.append(i)
    return out


def run(ck):
    v = H.build_exec_harness('c14-ts-asan')
    h = build.link_harness(v, os.path.join(v['dir'], 'h_uid'), [os.path.join(NATIVE, 'h_uid.c'), os.path.join(NATIVE, 'seam.c')])
    maxlen = 3 if ck.tier == 'quick' else 4
    evals = 0
    outcomes = set()
    samples = []

    def direct(u, numeric_db=False):
        items = alphabet(u) if ck.tier == 'quick' or True else alphabet(u)
        if ck.tier == 'thorough':
            items = items[:22]
        w = os.path.join(ck.workdir, ('n%d' if numeric_db else 'd%d') % u)
        os.makedirs(w, exist_ok=True)
        env = H.san_env(w)
        if numeric_db:
            # every all-digit list item is ALSO the login name of an account with a different uid: a uid list is a list of numbers, not of names
            etc = os.path.join(w, 'etc')
            os.makedirs(etc, exist_ok=True)
            digits = sorted(set(x for x in items if x.isdigit()))
            open(os.path.join(etc, 'passwd'), 'w').write(open('/etc/passwd').read() + ''.join('%s:x:%d:%d::/:/bin/false\n' % (name, 700000 + i, 700000 + i) for i, name in enumerate(digits)) +
                                                         ''.join('n%d:x:%s:1::/:/bin/false\n' % (i, name) for i, name in enumerate(digits) if int(name) < 2 ** 32 - 1 and int(name) not in (0,)))
            open(os.path.join(etc, 'group'), 'w').write(open('/etc/group').read())
            os.chmod(w, 0o755); os.chmod(etc, 0o755)
            for f in ('passwd', 'group'):
                os.chmod(os.path.join(etc, f), 0o644)
            env['VERIF_ETC_DIR'] = etc
        r = sh([h, str(2 if numeric_db else maxlen)], input=('%d %s\n' % (u, ' '.join(items))).encode(), env=env, cwd=w, timeout=1500)
        reports = [open(os.path.join(w, f), errors='replace').read()[:2000] for f in os.listdir(w) if f.startswith(('asan.', 'ubsan.'))]
        return u, r, reports, len(items)
    # build axis "long has 32 bits": every conversion through long saturates as on i386/armhf/x32 (native/ilp32.c)
    ILP32 = ['-Datol=vs32_atol', '-Datoi=vs32_atoi', '-Dstrtol=vs32_strtol', '-Dstrtoul=vs32_strtoul']
    v32 = build.build_variant('c14-ilp32-asan', ts=True, san='asan', nonreentrant=True, extra_cflags=ILP32)
    h32 = build.link_harness(v32, os.path.join(v32['dir'], 'h_uid'), [os.path.join(NATIVE, 'h_uid.c'), os.path.join(NATIVE, 'seam.c'), os.path.join(NATIVE, 'ilp32.c')])
    h64 = h

    def direct32(u):
        w = os.path.join(ck.workdir, 'l%d' % u)
        os.makedirs(w, exist_ok=True)
        items = alphabet(u)
        r = sh([h32, '2'], input=('%d %s\n' % (u, ' '.join(items))).encode(), env=H.san_env(w), cwd=w, timeout=1500)
        reports = [open(os.path.join(w, f), errors='replace').read()[:2000] for f in os.listdir(w) if f.startswith(('asan.', 'ubsan.'))]
        return u, r, reports, len(items)
    djobs = [(u, False) for u in UIDS] + [(u, True) for u in UIDS] + [(u, 'ilp32') for u in UIDS]
    for (u0, numdb), (u, r, reports, ni) in zip(djobs, pmap(lambda a: direct32(a[0]) if a[1] == 'ilp32' else direct(*a), djobs)):
        out = r.stdout.decode()
        summ = [l for l in out.splitlines() if l.startswith('uid=')]
        if r.returncode != 0 or reports or not summ:
            ck.violation('C14:abort:uid=%d%s' % (u, ':database=numeric_login_names' if numdb is True else ':long_has_32_bits' if numdb == 'ilp32' else ''), {'rc': r.returncode, 'stderr': r.stderr.decode()[-300:], 'sanitizer': reports[:1]})
            continue
        n = int(summ[0].split('lists=')[1].split()[0])
        evals += n
        outcomes.add((u, 'direct', numdb, n, summ[0].split('mismatches=')[1]))
        for l in out.splitlines():
            if l.startswith('MISMATCH'):
                f = dict(x.split('=', 1) for x in l.split()[1:])
                ck.violation('C14:filter_decision:uid=%s:list=%s%s' % (f['uid'], f['list'][:60], ('' if f.get('errno_before') == '0' else ':ambient_errno=' + f.get('errno_before', '?')) + (':database=numeric_login_names' if numdb is True else ':long_has_32_bits' if numdb == 'ilp32' else '')), {'line': l})
        samples.append({'uid': u, 'lists': n, 'alphabet': ni})
    # whole path: all lists of <= 2 items, both filters
    def whole(u):
        items = alphabet(u)
        lists = [[a] for a in items] + [[a, b] for a in items for b in items]
        w = os.path.join(ck.workdir, 'w%d' % u)
        os.makedirs(w, exist_ok=True)
        os.chmod(ck.workdir, 0o755)
        lines = ['sinks pipe', 'lean 1', 'noentry']
        if u != 0:
            lines.append('setresuid %d 0 0' % u)
        plan = []
        for L in lists:
            for flt in ('only_uid', 'exclude_uid'):
                cfg = ('[snoopy]\nmessage_format = M\noutput = file:log\nfilter_chain = %s:%s\n' % (flt, ','.join(L))).encode()
                lines += ['cfg ' + H.hx(cfg), 'errno %d' % (34 if (len(plan) % 2) else 0), 'call execve %s [h61] [] -1 2' % H.hx(b'/x')]   # ambient errno alternates 0 / ERANGE
                member = any(int(x) == u for x in L)
                plan.append((flt, L, member if flt == 'only_uid' else not member))
        r = H.run_script(v['h_exec'], w, '\n'.join(lines), env_extra={'VERIF_HEXMAX': '16'}, timeout=600)
        return u, r, plan
    for u, r, plan in pmap(whole, UIDS):
        calls = [l for l in r['lines'] if 'call' in l]
        if not r['done']:
            ck.violation('C14:abort:whole_path:uid=%d' % u, {'rc': r['rc'], 'sanitizer': r['san'][:1], 'stderr': r['stderr'][-300:]})
        for (flt, L, want_logged), j in zip(plan, calls):
            evals += 1
            logged = j['logdelta']['len'] > 0
            outcomes.add((u, 'whole', flt, logged))
            if logged != want_logged or j['rec_calls'] != 1:
                ck.violation('C14:whole_path:%s:uid=%d:list=%s' % (flt, u, ','.join(L)[:60]), {'filter': flt, 'uid': u, 'list': L, 'logged': logged, 'expected_logged': want_logged})
    ck.coverage(states=len(outcomes), transitions=evals, traces_validated_against_impl=evals, evaluations=evals, distinct_nontrivial=len(outcomes), real_uids=len(UIDS), max_list_length=maxlen,
                rule='all ordered lists (with repetition) up to the bound over the per-uid near-miss alphabet + long lists, x 3 filters, per real uid; whole path for <=2 items; distinct = (uid, path, filter, decision)',
                samples=samples[:5] or [{'note': 'none'}])
