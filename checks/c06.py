"""C06 - cmdline and filename describe the current call only.

Explicit-state search over call histories (E5) in the thread-safe and the non-thread-safe build:
every letter of the call alphabet is executed from every reachable library state; the record must
equal the reference for THAT call (independent of history) and the record the same call produces as
the first call of a fresh process.
"""
import os, itertools
from engine import harness as H, hist
from engine.common import pmap

META = {
    'level': 'model_checking',
    'technique': 'explicit-state BFS over call histories with real-state hashing (library .data/.bss + process attributes), reference + differential oracle',
    'text': 'Breadth-first search over histories of wrapped calls on the production wrapper; states are digests of every writable symbol of the library plus '
            'process attributes; every (reachable state, call letter) pair is executed; when the state set closes the result holds for histories of any length '
            'over the alphabet. All ordered pairs (and triples of a reduced alphabet in thorough) are executed in addition, as a guard against state outside the digest.'
            ' Added: strings of 2^31 bytes (mid-argv, as the sum, as the path, with a NULL argv) interleaved with ordinary calls, and texts that fill the limit exactly and end in a partial multi-byte character; the path-fallback histories also behind calls abandoned inside the library (siglongjmp).',
    'note': 'Alphabet: execv/execve x 3 paths x 11 argv shapes (NULL, argv[0]==NULL, empty strings, lengths limit-1/limit/limit+1/10x, 3000 entries) x 2 data-source limits, both builds. '
            'How long a truncated prefix may be is C05\'s business; here any prefix is accepted.',
}


def letters(dsmax):
    paths = {'p': b'/p', 'e': b'', 'L': b'P' * 3000, 'u': b'/' + b'u' * (dsmax - 3) + b'\xe2\x82'}     # 'u': a path of exactly the limit, ending in a partial multi-byte character
    argvs = {
        'NULL': None, 'a0NULL': [], 'emptystr': [b''], 'a': [b'a'], 'xyz': [b'x', b'y z', b''],
        'lim-1': [b'k' * 100, b'm' * (dsmax - 1 - 101)], 'lim': [b'k' * 100, b'm' * (dsmax - 101)], 'lim+1': [b'k' * 100, b'm' * (dsmax + 1 - 101)],
        'x10': [b'q' * dsmax] * 10, 'n3000': [b'ab'] * 3000,
        # the joined text fills the limit EXACTLY (nothing is cut) and ends in bytes that look like the start of a multi-byte character
        'lim_utf8lead': [b'k' * 100, b'm' * (dsmax - 102) + b'\xc3'], 'lim_utf8two': [b'k' * 100, b'm' * (dsmax - 103) + b'\xe2\x82'], 'lim_latin1': [b'k' * 100, b'm' * (dsmax - 105) + b'caf\xe9'],
        # many empty strings then a real argument, total just below the limit (one byte per argument: separator only)
        'empties': [b''] * (dsmax - 10) + [b'END'],
        # control bytes: a line feed inside an argument and as the very last byte of the last argument
        'nl': [b'sh', b'-c', b'echo one\necho two\n'],
        # argument strings adding up to more than 2^31 bytes (4100 entries that all point at one 512 KiB string)
        'two_gib': 'SHARED',
    }
    L = {}
    for fn in ('execv', 'execve'):
        for pk, p in paths.items():
            for ak, a in argvs.items():
                name = '%s:%s:%s' % (fn, pk, ak)
                if (ak.startswith('lim_') and (fn, pk) != ('execve', 'p')) or (pk == 'u' and (fn, ak) not in (('execve', 'a'), ('execv', 'NULL'))):
                    continue
                if a is None:
                    av = None
                elif ak == 'n3000':
                    av = [(3000, H.hx(b'ab'))]
                elif ak == 'empties':
                    av = [(dsmax - 10, 'h'), H.hx(b'END')]
                elif ak == 'two_gib':
                    if (fn, pk) != ('execv', 'p'):
                        continue
                    av = ['4100^' + H.rep('g', 512 * 1024)]
                    a = [b'g' * (512 * 1024)] * 2      # enough of it for the prefix rule (the reference never needs more than the limit)
                else:
                    av = [H.hx(x) for x in a]
                L[name] = (fn, p, a, 'call %s %s %s %s -1 2' % (fn, H.hx(p), H.vec(av), '[h413d31]' if fn == 'execve' else 'N'))
    return L


def reference(p, a, dsmax):
    """(filename_text, cmdline_text) per the statement"""
    cmd = p if (a is None or len(a) == 0) else b' '.join(a)
    return p, cmd


def check_record(data, p, a, dsmax):
    """data = bytes appended to the log by this call.  returns list of failures"""
    fn_ref, cmd_ref = reference(p, a, dsmax)
    # one record = message + ONE line feed added by the output; line feeds that belong to the arguments stay in the message
    if not data.endswith(b'\n') or (data.count(b'\n') != 1 + cmd_ref[:dsmax].count(b'\n') + fn_ref[:dsmax].count(b'\n')):
        return ['framing']
    msg = data[:-1]
    if b'|' not in msg:
        return ['no_separator']
    f, c = msg.split(b'|', 1)
    bad = []
    if len(fn_ref) <= dsmax:
        if f != fn_ref:
            bad.append('filename_wrong')
    elif not fn_ref.startswith(f):
        bad.append('filename_not_prefix')
    if len(cmd_ref) <= dsmax:
        if c != cmd_ref:
            bad.append('cmdline_wrong')
    elif not cmd_ref.startswith(c):
        bad.append('cmdline_not_prefix')
    return bad


def run(ck):
    total_states = total_trans = 0
    outcomes = set()
    samples = []
    closed_all = True
    variants = [('ts', True), ('nots', False)]
    for vname, ts in variants:
        v = H.build_exec_harness('c06-%s-asan' % vname, ts=ts)
        symfile = os.path.join(v['dir'], 'syms.txt')
        H.write_syms(v, v['h_exec'], symfile)
        for dsmax in (255, 2047):
            L = letters(dsmax)
            # the log path is relative: every harness process runs in its own work directory
            cfg = b'[snoopy]\nmessage_format = %%{filename}|%%{cmdline}\ndatasource_message_max_length = %d\noutput = file:log\n' % dsmax
            prelude = ['sinks pipe', 'lean 1', 'errno -1', 'cfg ' + H.hx(cfg)]
            ex = hist.Explorer(v['h_exec'], symfile, os.path.join(ck.workdir, '%s-%d' % (vname, dsmax)), prelude,
                               {k: [val[3]] for k, val in L.items()}, warmup=['call execve h2f77 [h77] [] -1 2'])
            # reference: each letter as the very first wrapped call of a fresh process (no warm-up call before it)
            fresh = {}
            for a, r0 in zip(L, pmap(lambda a: ex.run_history([a], warm=False), list(L))):
                c0 = r0['steps'][-1][0]
                if c0 is not None and r0['ok']:
                    fresh[a] = H.sink_bytes(c0['logdelta'])

            def on_step(h, a, call, r, L=L, dsmax=dsmax, vname=vname, fresh=fresh):
                fn, p, av, _ = L[a]
                tag = '%s:ds=%d' % (vname, dsmax)
                if call is None or not r['ok']:
                    ck.violation('C06:abort:%s:hist=%s' % (tag, '>'.join(h + [a])), {'variant': vname, 'dsmax': dsmax, 'history': h + [a],
                                 'sanitizer': r['raw']['san'][:1], 'rc': r['raw']['rc'], 'stderr': r['raw']['stderr'][-500:]})
                    return
                data = H.sink_bytes(call['logdelta'])
                bad = check_record(data, p, av, dsmax)
                if a in fresh and data != fresh[a]:
                    bad.append('differs_from_fresh_process')
                if call['rec_calls'] != 1:
                    bad.append('rec_calls')
                outcomes.add((tag, a, H.fnv(data)))
                if bad:
                    ck.violation('C06:%s:%s:hist=%s' % ('+'.join(bad), tag, '>'.join(h + [a])),
                                 {'variant': vname, 'dsmax': dsmax, 'history': h + [a], 'failed': bad, 'record_head': data[:200].decode('latin-1'),
                                  'fresh_head': fresh.get(a, b'')[:200].decode('latin-1')})
                if len(samples) < 4 and len(outcomes) % 97 == 5:
                    samples.append({'variant': vname, 'dsmax': dsmax, 'history': h + [a], 'record_len': len(data)})
            res = ex.bfs(4 if ck.tier == 'thorough' else 3, on_step, deadline=ck.deadline)
            total_states += res['states']
            total_trans += res['transitions']
            closed_all &= res['closed']
            if res['states'] > 1:
                # more than one library state reachable: report what differs (information; the oracle decides)
                pass
            # guard pass: all ordered pairs (depth 2) regardless of digest closure
            names = list(L)
            if ck.tier == 'quick':
                # pairs where the first call is "long" or NULL-ish and the second anything: the interactions the statement names
                firsts = [n for n in names if any(t in n for t in (':x10', ':n3000', ':NULL', ':lim+1', 'L:a0NULL'))]
            else:
                firsts = names
            pairs = [(a, b) for a in firsts for b in names]

            def runpair(pr):
                return ex.run_history(list(pr))
            for pr, r in zip(pairs, pmap(runpair, pairs)):
                total_trans += 1
                on_step([pr[0]], pr[1], r['steps'][-1][0], r)
    # ---- strings that reach or cross 2^31 bytes ("far above the limit"): the record is made before the kernel would refuse the exec.  One history per
    # (build, limit): huge calls interleaved with ordinary ones - nothing of a huge call may leak into, or be missing from, the next record either
    for vname, ts in variants:
        v = H.build_exec_harness('c06-%s-asan' % vname, ts=ts)
        for dsmax in (255, 2047):
            cfg = b'[snoopy]\nmessage_format = %%{filename}|%%{cmdline}\ndatasource_message_max_length = %d\noutput = file:log\n' % dsmax
            plain = 'call execve %s %s [] -1 2' % (H.hx(b'/bin/q'), H.vec([H.hx(b'q'), H.hx(b'x y')]))
            steps = ['hugecall mid', plain, 'hugecall sum', 'hugecall path', plain, 'hugecall nullargv', plain]
            want = {'hugecall mid': b'/bin/prog|' + (b'first ' + b'A' * dsmax)[:dsmax], 'hugecall sum': b'/bin/prog|' + (b'first ' + b'A' * dsmax)[:dsmax],
                    'hugecall path': b'A' * dsmax + b'|prog', 'hugecall nullargv': b'A' * dsmax + b'|' + b'A' * dsmax, plain: b'/bin/q|q x y'}
            r = H.run_script(v['h_exec'], os.path.join(ck.workdir, 'huge-%s-%d' % (vname, dsmax)), '\n'.join(['sinks pipe', 'lean 1', 'cfg ' + H.hx(cfg)] + steps), env_extra={'VERIF_HEXMAX': '8192'}, timeout=900)
            calls = [l for l in r['lines'] if 'call' in l]
            tag = '%s:ds=%d' % (vname, dsmax)
            if not r['done'] or r['san'] or len(calls) != len(steps):
                ck.violation('C06:abort:%s:hist=%s' % (tag, '>'.join(steps[:len(calls) + 1]).replace('hugecall ', 'strings_of_2^31_bytes:')), {'rc': r['rc'], 'sanitizer': r['san'][:1], 'stderr': r['stderr'][-400:]})
                continue
            for i, (st, c) in enumerate(zip(steps, calls)):
                total_trans += 1
                data = H.sink_bytes(c['logdelta'])
                outcomes.add((tag, 'huge', st.split()[0] + st.split()[1][:8], H.fnv(data)))
                bad = []
                if data != want[st] + b'\n':
                    bad.append('record_is_not_the_text_cut_to_the_limit' if st.startswith('hugecall') else 'record_after_huge_call_wrong')
                if c['rec_calls'] != 1:
                    bad.append('rec_calls')
                if bad:
                    ck.violation('C06:%s:%s:hist=%s' % ('+'.join(bad), tag, '>'.join(x.replace('hugecall ', 'strings_of_2^31_bytes:') if x.startswith('huge') else 'plain' for x in steps[:i + 1])),
                                 {'variant': vname, 'dsmax': dsmax, 'step': st, 'failed': bad, 'record_head': data[:120].decode('latin-1'), 'record_len': len(data), 'wanted_head': want[st][:60].decode('latin-1'), 'seconds': c.get('seconds')})
    # ---- the other tag order (%{cmdline} first, so that nothing later in the message hides what a value leaves behind in the reused buffers): a long call,
    # then calls whose cmdline is the path fallback (NULL argv, argv[0] == NULL), then short ones - every record exact
    for vname, ts in variants:
        v = H.build_exec_harness('c06-%s-asan' % vname, ts=ts)
        for dsmax in (255, 2047):
            cfg = b'[snoopy]\nmessage_format = %%{cmdline}|%%{filename}\ndatasource_message_max_length = %d\noutput = file:log\n' % dsmax
            longc = ('call execve %s %s [] -1 2' % (H.hx(b'/bin/long'), H.vec([H.hx(b'long')] + [(40, H.hx(b'argument-of-the-earlier-call'))])), b' '.join([b'long'] + [b'argument-of-the-earlier-call'] * 40)[:dsmax] + b'|/bin/long')
            nullc = ('call execve %s N [] -1 2' % H.hx(b'/bin/nullargv'), b'/bin/nullargv|/bin/nullargv')
            a0c = ('call execv %s [] N -1 2' % H.hx(b'/bin/a0null'), b'/bin/a0null|/bin/a0null')
            shortc = ('call execve %s %s [] -1 2' % (H.hx(b'/bin/s'), H.vec([H.hx(b's')])), b's|/bin/s')
            # ... and the same after a call that was ABANDONED inside the library (blocked on a FIFO nobody reads, left by siglongjmp from the program's own
            # timeout handler; a vfork child killed inside the wrapper leaves the same): its end-of-call clean-up never ran, so whatever the library
            # keeps per thread about "the current call" still describes the abandoned one when the next call begins
            stale = b'[snoopy]\nmessage_format = %%{cmdline}|%%{filename}\ndatasource_message_max_length = %d\noutput = file:stuck\n' % dsmax
            abandon = [('fillfifo ' + H.hx(b'stuck'), None), ('cfg ' + H.hx(stale), None), ('abandon', None), ('cfg ' + H.hx(cfg), None)]
            for seq in ([longc, nullc, a0c, shortc], [longc, a0c, longc, nullc], [nullc, longc, shortc, a0c, nullc],
                        abandon + [nullc, a0c, shortc], abandon + [a0c, nullc], abandon + [shortc, nullc, longc], [longc] + abandon + [nullc], abandon + abandon + [nullc, shortc]):
                r = H.run_script(v['h_exec'], os.path.join(ck.workdir, 'order-%s-%d' % (vname, dsmax)), '\n'.join(['sinks pipe', 'lean 1', 'cfg ' + H.hx(cfg)] + [c for c, _ in seq]), env_extra={'VERIF_HEXMAX': '8192'}, timeout=120)
                n_ab = sum(1 for l in r['lines'] if l.get('call') == 'abandoned' and not l.get('returned_normally'))
                if n_ab != sum(1 for c, _ in seq if c == 'abandon') and r['done'] and not r['san']:
                    raise RuntimeError('the abandoned call was not abandoned: %r' % (r['lines'][-4:],))
                calls = [l for l in r['lines'] if 'call' in l and l.get('call') != 'abandoned']
                was_abandoned = any(c == 'abandon' for c, _ in seq)
                seq = [x for x in seq if x[1] is not None]
                tag = '%s:ds=%d:format=cmdline_first%s' % (vname, dsmax, ':after_an_abandoned_call' if was_abandoned else '')
                if not r['done'] or r['san'] or len(calls) != len(seq):
                    ck.violation('C06:abort:%s' % tag, {'rc': r['rc'], 'sanitizer': r['san'][:1], 'stderr': r['stderr'][-300:]})
                    continue
                for i, ((c, want), j) in enumerate(zip(seq, calls)):
                    total_trans += 1
                    data = H.sink_bytes(j['logdelta'])
                    outcomes.add((tag, i, H.fnv(data)))
                    if data != want + b'\n':
                        ck.violation('C06:record_wrong:%s:hist=%s' % (tag, '>'.join(x[0].split()[2][:14] for x in seq[:i + 1])), {'variant': vname, 'dsmax': dsmax, 'got': data[:200].decode('latin-1'), 'want': want[:120].decode('latin-1'), 'got_len': len(data), 'want_len': len(want) + 1})
    if not closed_all:
        ck.capped = True
    ck.assumptions += ['libc-internal state (stdio, allocator) is outside the digest; guarded by executing all ordered pairs directly',
                       'truncated values: any prefix accepted (C05 decides the length)']
    ck.coverage(states=total_states, transitions=total_trans, traces_validated_against_impl=total_trans, evaluations=total_trans,
                distinct_nontrivial=len(outcomes), state_set_closed=closed_all,
                rule='BFS over histories of the 66-letter call alphabet per (build, limit), de-duplicated on the real-state digest, plus ordered pairs; distinct = (build, limit, letter, record)',
                samples=samples or [{'note': 'none'}])
