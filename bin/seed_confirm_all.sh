#!/bin/bash
# confirm every seed (original if it still applies, else the rebased version) not yet in /verif/seeded
for id in "$@"; do
  for n in 1 2 3; do
    [ -d /verif/seeded/$id-$n ] && continue
    src=/tmp/wt/$id-out/$n
    [ -d /tmp/wt/rebased/$id-$n ] && src=/tmp/wt/rebased/$id-$n
    [ -f $src/patch.diff ] || continue
    /verif/bin/seed_confirm.sh $src $id-$n $id 2>&1 | tail -2
  done
done
