#!/bin/bash
# confirm every seed under /tmp/wt/Cxx-out/<n> not yet in /verif/seeded
for id in "$@"; do
  for n in 1 2 3; do
    src=/tmp/wt/$id-out/$n
    [ -f $src/patch.diff ] || continue
    [ -d /verif/seeded/$id-$n ] && continue
    /verif/bin/seed_confirm.sh $src $id-$n $id 2>&1 | tail -2
  done
done
