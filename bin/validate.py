#!/opt/veriftools/pyvenv/bin/python3
import json, jsonschema, glob, sys
ok = True
jsonschema.validate(json.load(open('/verif/MANIFEST.json')), json.load(open('/root/.vp/MANIFEST.schema.json')))
es = json.load(open('/root/.vp/EVIDENCE.schema.json'))
for f in sorted(glob.glob('/verif/evidence/*.json')):
    try:
        jsonschema.validate(json.load(open(f)), es)
    except Exception as e:
        ok = False; print('INVALID', f, str(e)[:300])
print('valid' if ok else 'INVALID')
sys.exit(0 if ok else 1)
