#!/bin/bash
# usage: seed_matrix.sh [name ...]     (default: every directory under /verif/seeded)
# For each seeded change: scratch worktree of /repo HEAD + patch, then the quick check of the property it breaks
# (plus extra checks listed in seeded/<name>/also_run, if any) with VERIF_REPO / VERIF_SCRATCH pointing at scratch
# locations, so neither /repo nor /verif/evidence is touched.  Writes detected_by into meta.json and seeded/RESULTS.md.
cd /verif; mkdir -p /tmp/wt
names="$@"; [ -n "$names" ] || names=$(ls seeded | grep -v RESULTS)
for name in $names; do
  d=seeded/$name; [ -f $d/patch.diff ] || continue
  pid=$(python3 -c "import json;print(json.load(open('$d/meta.json'))['breaks_property'])")
  wt=/tmp/wt/mx-$name; sc=/tmp/wt/mxs-$name
  rm -rf $wt $sc; git -C /repo worktree prune; git -C /repo worktree add --detach $wt HEAD >/dev/null 2>&1
  if ! git -C $wt apply $PWD/$d/patch.diff 2>/dev/null; then echo "$name: patch does not apply"; git -C /repo worktree remove --force $wt; continue; fi
  checks="$pid $(cat $d/also_run 2>/dev/null)"
  det=""
  for c in $checks; do
    out=$(VERIF_REPO=$wt VERIF_SCRATCH=$sc bin/verif check $c --tier quick 2>&1); rc=$?
    sig=$(echo "$out" | grep '^VIOLATION' | head -1 | sed 's/.*# //' | cut -c1-160)
    echo "$name: $c rc=$rc $sig"
    [ $rc -eq 1 ] && det="$det $c"
    python3 - "$d/meta.json" "$c" "$rc" "$sig" <<'PY'
import json,sys
p,c,rc,sig=sys.argv[1:5]; m=json.load(open(p)); m.setdefault('check_results',{})[c]={'quick_exit':int(rc),'first_violation':sig}
m['detected_by']=sorted(k for k,v in m['check_results'].items() if v['quick_exit']==1)
json.dump(m,open(p,'w'),indent=1)
PY
  done
  git -C /repo worktree remove --force $wt; rm -rf $wt $sc
done
