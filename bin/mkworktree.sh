#!/bin/bash
# usage: mkworktree.sh <dir> [--build]
# Creates a scratch git worktree of /repo at <dir> (outside /repo and /verif), copies the
# git-ignored autotools bootstrap products (configure, Makefile.in, aux files) from /repo so that
# it can be configured offline, and optionally configures + builds it.
set -e
d="$1"; [ -n "$d" ] || { echo "usage: $0 <dir> [--build]"; exit 2; }
git -C /repo worktree add --detach "$d" HEAD >/dev/null
cd /repo
# bootstrap products only (never object files / Makefiles / config.h)
{ find . -name Makefile.in -not -path './.git/*'; echo ./configure; echo ./aclocal.m4; echo ./config.h.in; find ./build/aux ./build/m4 -type f; } | \
  rsync -a --files-from=- /repo/ "$d"/
cd "$d"
if [ "$2" = "--build" ]; then
  ./configure CFLAGS=' -Wno-error' >/dev/null 2>&1
  make -j16 >/dev/null 2>&1
fi
echo "$d"
