#!/bin/bash
# usage: baseline.sh [dir]   (default /repo)
# Runs the repository's own test suite (make -k check) in <dir> and compares the set of passing
# tests with the pinned baseline (172 tests). Exit 0 iff every baseline test passes.
d="${1:-/repo}"
here="$(cd "$(dirname "$0")/.." && pwd)"
log="$(mktemp)"
( cd "$d" && make -k check ) >"$log" 2>&1
# automake prints "PASS: name.sh" inside "Making check in <subdir>" / "make[N]: Entering directory '.../tests/<sub>'"
python3 - "$log" "$here/engine/baseline_pass.txt" <<'PY'
import re,sys
cur=None; passed=set(); failed=set()
for l in open(sys.argv[1],errors='replace'):
    m=re.search(r"Entering directory '.*?/(tests/[a-z]+)'",l)
    if m: cur=m.group(1)
    m=re.match(r'(PASS|FAIL|XFAIL|XPASS|ERROR|SKIP): (\S+)',l)
    if m and cur:
        (passed if m.group(1)=='PASS' else failed).add(cur+'/'+m.group(2))
base=set(open(sys.argv[2]).read().split())
missing=sorted(base-passed)
print(f"baseline: {len(base&passed)}/{len(base)} baseline tests pass; not passing: {missing}")
sys.exit(0 if not missing else 1)
PY
rc=$?; rm -f "$log"; exit $rc
