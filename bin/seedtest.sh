#!/bin/bash
# usage: seedtest.sh <patch.diff> <ID> [ID...]   - apply a seeded change to /repo, run the quick checks, undo it.
p="$1"; shift
cd /repo || exit 2
if ! git apply --check "$p" 2>/dev/null; then echo "PATCH DOES NOT APPLY: $p"; git apply --3way --check "$p" 2>&1 | head -3; exit 3; fi
git apply "$p"
trap 'git -C /repo checkout -- . ' EXIT
cd /verif
for id in "$@"; do
  out=$(bin/verif check $id --tier ${TIER:-quick} 2>&1); rc=$?
  echo "== $id rc=$rc : $(echo "$out" | grep -c '^VIOLATION') violation lines; $(echo "$out" | grep '^VIOLATION' | head -2 | cut -c1-230)"
  echo "$out" | tail -1 | cut -c1-300
done
