#!/bin/bash
# usage: seed_confirm.sh <seed-src-dir (with patch.diff, demo.sh)> <name e.g. C05-2> <property id>
# Confirms a seeded change in a fresh scratch worktree of /repo's current HEAD:
#   builds clean -> demo must pass; applies patch -> builds -> baseline suite must pass -> demo must fail.
# On success copies it to /verif/seeded/<name>/ with meta.json.  Worktree is removed afterwards.
src="$1"; name="$2"; pid="$3"
mkdir -p /tmp/wt
wt=/tmp/wt/confirm-$name
rm -rf "$wt"; git -C /repo worktree prune
/verif/bin/mkworktree.sh "$wt" --build >/dev/null 2>&1 || { echo "$name: worktree build failed"; exit 2; }
cleanup() { cd /; git -C /repo worktree remove --force "$wt" 2>/dev/null; rm -rf "$wt"; }
trap cleanup EXIT
cd "$wt"
bash "$src/demo.sh" "$wt" >/tmp/wt/confirm-$name.clean.log 2>&1; rc_clean=$?
if ! git apply "$src/patch.diff" 2>/dev/null; then echo "$name: PATCH DOES NOT APPLY to current HEAD"; exit 3; fi
make -j16 >/tmp/wt/confirm-$name.build.log 2>&1 || { echo "$name: patched build FAILED"; exit 4; }
base=$(/verif/bin/baseline.sh "$wt" 2>&1 | tail -1); rc_base=$?
echo "$base" | grep -q '172/172' && rc_base=0 || rc_base=1
bash "$src/demo.sh" "$wt" >/tmp/wt/confirm-$name.patched.log 2>&1; rc_patched=$?
echo "$name: demo_clean_rc=$rc_clean demo_patched_rc=$rc_patched baseline_ok=$((1-rc_base)) [$base]"
if [ $rc_clean -eq 0 ] && [ $rc_patched -ne 0 ] && [ $rc_base -eq 0 ]; then
  d=/verif/seeded/$name; rm -rf "$d"; mkdir -p "$d"
  rsync -a --exclude work --exclude build --exclude "*.log" "$src"/ "$d"/
  python3 - "$d" "$pid" "$name" "$(git -C /repo rev-parse --short HEAD)" "$base" <<'PY'
import json,sys,os
d,pid,name,head,base=sys.argv[1:6]
readme=open(os.path.join(d,'README.md')).read() if os.path.exists(os.path.join(d,'README.md')) else ''
json.dump({'name':name,'breaks_property':pid,'origin':'independent sub-agent given only the property text and a scratch worktree',
 'confirmed_against_repo_head':head,'what_i_ran':['mkworktree.sh (fresh worktree, configure, make)','demo.sh on clean tree -> exit 0','git apply patch.diff; make -j16','bin/baseline.sh (make -k check) -> '+base,'demo.sh on patched tree -> non-zero exit'],
 'needs_to_manifest':'see README.md','detected_by':None},open(os.path.join(d,'meta.json'),'w'),indent=1)
PY
  echo "$name: CONFIRMED -> $d"
else
  echo "$name: NOT CONFIRMED"; exit 5
fi
